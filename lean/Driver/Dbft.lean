/-
Driver for stream `dbft` (C19). Two checks run side by side on the trace of the real consensus services:

(1) trace validation against the guarded-command model `NeoModel.Dbft` (every payload a node emits and
    every local transition it makes is an ENABLED step of the model), as before;
(2) the deterministic machine `NeoModel.Dbft.Mach`: for every event handed to a real service the machine
    computes the node's reaction; the sequence of things the real service then does (payloads broadcast,
    timer resets and extensions with their durations, transaction requests, the block handed to the
    ledger and the ledger's verdict) must be EXACTLY the predicted sequence, and the real dBFT context
    after the event must equal the machine's state (`obs` line: the driver prints the machine's state, the
    harness the real one, the check diffs them).

  case <k>                       -> case <k>           (reset)
  init <n> <tpb> <maxTx> <maxSize> <maxSysFee> <sr> <baseV> <baseP> <gts>   -> ok
  txinfo tK <sysfee> <size>      -> ok
  mp <i> <t,…|->                 -> ok                 (node i's verified pool, in GetVerifiedTransactions order)
  prop <N> <h> <v> <from> <ts> <prev> <sroot> <ver> <k> t…  -> ok   (what PrepareRequest pN carries)
  start <i> | deliver <to> <payload> | timeout <i> <h> <v> | tx <i> tK | block <i> <h> <bN>
                                 -> ok | bad …         (the event; (1) checks it, (2) remembers it)
  forge <to> <payload>           -> ok                 (a PrepareRequest crafted by the harness: (2) only)
  hint <i> <now> <fresh> <k> s…  -> ok                 ((2) computes the reaction: clock, the name of a proposal
                                                        made now, senders of dBFT's OnReceive calls in order)
  emit <i> <payload> | view <i> <h> <v> <dur> | ext <i> <d> | rtx <i> <t,…> | stx <i>
  accept <i> <h> <bN> ok|dup|rej -> ok | bad …         (next predicted action of (2); (1) as before)
  st <i>                         -> <height> <view>
  obs <i>                        -> the machine's state | bad … (predicted actions the service did not take)

payload ::= PR f h v pN bM | PS f h v pN | CM f h v bM | CV f h v nv r | RR f h v
          | RM f h v k item… # ncv (vi ov)* R<pN|-> H<pN|-> np idx* ncm (view vi bN)*
-/
import NeoModel.Base.Proto
import NeoModel.Model.Dbft
import NeoModel.Model.DbftMach
import NeoModel.Model.DbftEpoch
open NeoModel NeoModel.Dbft

structure D where
  c : Cfg := { n := 4 }
  s : State := init
  blocks : List (String × Block) := []
  -- the machines
  e : Mach.Env := { n := 4 }
  props : List (Nat × Mach.PropInfo) := []
  txi : List (Nat × Mach.TxInfo) := []
  ms : Array Mach.Node := #[]
  gts : Nat := 0
  pend : Option (Nat × Mach.Event) := none
  exp : List Mach.Out := []
  expNode : Nat := 0
  expBad : String := ""
  /-- validators that were handed a crafted payload: what they do afterwards is outside the
      guarded-command model (no Byzantine validator there); only the machine check applies to them -/
  tainted : List Nat := []
  /-- epoch cases: committee size and the NEO contract's two cached validator lists (Model/DbftEpoch.lean);
      validator sets are named by the trace -/
  ep : Option (Nat × Epoch.VS String) := none

/-- keep the node map a flat array lookup (the model's `upd` builds a closure chain) -/
def normalize (c : Cfg) (s : State) : State :=
  let arr := ((List.range c.n).map s.nodes).toArray
  { s with nodes := fun i => arr.getD i {} }

def pnum (w : String) : Option Nat :=
  if w.startsWith "p" then (w.drop 1).toNat? else none

def tnum (w : String) : Option Nat :=
  if w.startsWith "t" then (w.drop 1).toNat? else none

def tlist (w : String) : List Nat :=
  if w == "-" then [] else (w.splitOn ",").filterMap tnum

def lookupB (d : D) (w : String) : Option Block := (d.blocks.find? (fun e => e.1 == w)).map (·.2)

def D.env (d : D) : Mach.Env :=
  let props := d.props
  let txi := d.txi
  { d.e with prop := fun p => (props.lookup p).getD {}, tx := fun t => (txi.lookup t).getD {} }

/-- parse one item off the front of a word list -/
def parseItem (d : D) : List String → Option (Item × List String)
  | "PR" :: f :: h :: v :: p :: rest => do
      let f ← f.toNat?; let h ← h.toNat?; let v ← v.toNat?; let p ← pnum p
      some (.prepReq f ⟨h, v, p⟩, rest)
  | "PS" :: f :: h :: v :: p :: rest => do
      let f ← f.toNat?; let h ← h.toNat?; let v ← v.toNat?; let p ← pnum p
      some (.prepResp f ⟨h, v, p⟩, rest)
  | "CM" :: f :: h :: _ :: b :: rest => do
      let f ← f.toNat?; let _ ← h.toNat?
      let b ← lookupB d b
      some (.commit f b, rest)
  | "CV" :: f :: h :: v :: nv :: _ :: rest => do
      let f ← f.toNat?; let h ← h.toNat?; let v ← v.toNat?; let nv ← nv.toNat?
      some (.changeView f h v nv, rest)
  | _ => none

def parseItems (d : D) : Nat → List String → Option (List Item)
  | 0, [] => some []
  | 0, _ => none
  | k + 1, ws => do
      let (it, rest) ← parseItem d ws
      let its ← parseItems d k rest
      some (it :: its)

def takeN (k : Nat) (ws : List String) : Option (List String × List String) :=
  if ws.length < k then none else some (ws.take k, ws.drop k)

def pairs : List String → Option (List (Nat × Nat))
  | [] => some []
  | a :: b :: rest => do
      let a ← a.toNat?; let b ← b.toNat?; let r ← pairs rest
      some ((a, b) :: r)
  | _ => none

def triples (d : D) : List String → Option (List (Nat × Nat × Block))
  | [] => some []
  | a :: b :: c :: rest => do
      let a ← a.toNat?; let b ← b.toNat?; let r ← triples d rest
      some ((a, b, (lookupB d c).getD ⟨0, 0, 0⟩) :: r)
  | _ => none

def optP (w : String) : Option (Option Nat) :=
  if w == "R-" || w == "H-" then some none else ((w.drop 2).toNat?).map some

/-- the compact content of a RecoveryMessage: ncv (vi ov)* R<pN|-> H<pN|-> np idx* ncm (view vi bN)* -/
def parseRec (d : D) (ws : List String) : Option Mach.Rec := do
  match ws with
  | ncv :: rest =>
    let ncv ← ncv.toNat?
    let (cvw, rest) ← takeN (2 * ncv) rest
    let cvs ← pairs cvw
    match rest with
    | r :: hh :: np :: rest =>
      let req ← optP r
      let ph ← optP hh
      let np ← np.toNat?
      let (pw, rest) ← takeN np rest
      let preps := pw.filterMap String.toNat?
      match rest with
      | ncm :: rest =>
        let ncm ← ncm.toNat?
        let (cw, rest) ← takeN (3 * ncm) rest
        if !rest.isEmpty then none
        let commits ← triples d cw
        some { cvs := cvs, req := req, ph := ph, preps := preps, commits := commits }
      | _ => none
    | _ => none
  | _ => none

def splitHash (ws : List String) : List String × List String :=
  (ws.takeWhile (· != "#"), (ws.dropWhile (· != "#")).drop 1)

/-- a top-level payload for the guarded-command model; a PrepareRequest also names its block -/
def parseMsg (d : D) : List String → Option (D × Msg × Nat × Nat × Nat)
  | ["PR", f, h, v, p, b] => do
      let f ← f.toNat?; let h ← h.toNat?; let v ← v.toNat?; let p ← pnum p
      let blk : Block := ⟨h, v, p⟩
      -- the block name must denote exactly this (height, view, proposal)
      match lookupB d b with
      | some blk' => if blk' = blk then some (d, .item (.prepReq f blk), f, h, v) else none
      | none =>
        if b == "b?" then none
        else if d.blocks.any (fun e => e.2 == blk) then none
        else some ({ d with blocks := (b, blk) :: d.blocks }, .item (.prepReq f blk), f, h, v)
  | ["RR", f, h, v] => do
      let f ← f.toNat?; let h ← h.toNat?; let v ← v.toNat?
      some (d, .recReq f h v, f, h, v)
  | "RM" :: f :: h :: v :: k :: rest => do
      let f ← f.toNat?; let h ← h.toNat?; let v ← v.toNat?; let k ← k.toNat?
      let its ← parseItems d k (splitHash rest).1
      some (d, .recMsg f h v its, f, h, v)
  | ws => do
      let (it, rest) ← parseItem d ws
      if !rest.isEmpty then none
      match ws with
      | _ :: f :: h :: v :: _ => do
          let f ← f.toNat?; let h ← h.toNat?; let v ← v.toNat?
          some (d, .item it, f, h, v)
      | _ => none

/-- the same payload for the machine -/
def parsePl (d : D) : List String → Option Mach.Pl
  | ["PR", f, h, v, p, _] => do
      let f ← f.toNat?; let h ← h.toNat?; let v ← v.toNat?; let p ← pnum p
      some (.prepReq ⟨f, h, v⟩ p)
  | ["PS", f, h, v, p] => do
      let f ← f.toNat?; let h ← h.toNat?; let v ← v.toNat?; let p ← pnum p
      some (.prepResp ⟨f, h, v⟩ p)
  | ["CM", f, h, v, b] => do
      let f ← f.toNat?; let h ← h.toNat?; let v ← v.toNat?
      some (.commit ⟨f, h, v⟩ ((lookupB d b).getD ⟨0, 0, 0⟩))
  | ["CV", f, h, v, _, r] => do
      let f ← f.toNat?; let h ← h.toNat?; let v ← v.toNat?; let r ← r.toNat?
      some (.cv ⟨f, h, v⟩ r)
  | ["RR", f, h, v] => do
      let f ← f.toNat?; let h ← h.toNat?; let v ← v.toNat?
      some (.recReq ⟨f, h, v⟩)
  | "RM" :: f :: h :: v :: _ :: rest => do
      let f ← f.toNat?; let h ← h.toNat?; let v ← v.toNat?
      let r ← parseRec d (splitHash rest).2
      some (.recMsg ⟨f, h, v⟩ r)
  | _ => none

def take (d : D) (a : Action) : D := { d with s := normalize d.c (apply d.c d.s a) }

def try_ (d : D) (a : Action) (what : String) : D × String :=
  if Enabled d.c d.s a then (take d a, "ok") else (d, "bad " ++ what)

def describe (d : D) (i : Nat) : String :=
  let nd := d.s.nodes i
  s!"(model: node {i} height {nd.height} view {nd.view} commits {nd.myCommits.length} preps {nd.myPreps.length})"

/-- A payload a node emits carries the node's current (height, view). dBFT resets its timer only at the
end of `initializeConsensus` (dbft.go:159), after it has replayed cached payloads, so a payload of the new
view can be observed before the timer reset that announces the view: take the view change first. -/
def catchUpView (d : D) (i h v : Nat) : D :=
  let nd := d.s.nodes i
  if h == nd.height && v > nd.view && Enabled d.c d.s (.changeView i v) then take d (.changeView i v) else d

def onEmit (d : D) (i : Nat) (ws : List String) : D × String :=
  match parseMsg d ws with
  | none => (d, "bad emit: unparsable or inconsistent payload")
  | some (d, m, f, h, v) =>
    let d := catchUpView d i h v
    let nd := d.s.nodes i
    if f != i then (d, "bad emit: validator index")
    else match m with
    | .item (.prepReq _ b) =>
        if b.h == nd.height && b.v == nd.view then try_ d (.sendPrepReq i b.p) ("emit PR not enabled " ++ describe d i)
        else (d, "bad emit PR: height/view " ++ describe d i)
    | .item (.prepResp _ b) => try_ d (.sendPrepResp i b) ("emit PS not enabled " ++ describe d i)
    | .item (.commit _ b) =>
        if b.v == v && b.h == h then
          try_ d (.sendCommit i b) (s!"emit CM not enabled: prepared {countP d.c.n (prepared nd.known b)} of M={d.c.m} " ++ describe d i)
        else (d, "bad emit CM: payload view differs from the signed block's")
    | .item (.changeView _ h' v' nv) =>
        if h' == nd.height && v' == nd.view && nv == v' + 1 then try_ d (.sendChangeView i) ("emit CV not enabled " ++ describe d i)
        else (d, "bad emit CV: height/view " ++ describe d i)
    | .recReq _ h' v' =>
        if h' == nd.height && v' == nd.view then try_ d (.sendRecReq i) "emit RR not enabled"
        else (d, "bad emit RR: height/view " ++ describe d i)
    | .recMsg _ h' v' its =>
        if h' == nd.height && v' == nd.view then
          try_ d (.sendRecMsg i its) ("emit RM not enabled: relays a payload the node never held " ++ describe d i)
        else (d, "bad emit RM: height/view " ++ describe d i)

/-! ### the machine side -/

def showT (l : List Nat) : String := if l.isEmpty then "-" else ",".intercalate (l.map fun t => s!"t{t}")

def showPrep : Option Mach.Pl → String
  | none => "-"
  | some (.prepReq _ p) => s!"R{p}"
  | some (.prepResp _ p) => s!"S{p}"
  | some _ => "?"

def showCommit : Option Mach.Pl → String
  | none => "-"
  | some (.commit x b) => if b.h == 0 then s!"{x.v}:?" else s!"{x.v}:{b.v}.{b.p}"
  | some _ => "?"

def showCV : Option Mach.Pl → String
  | some (.cv x r) => s!"{x.v}r{r}"
  | none => "-"
  | some _ => "?"

def showLS : Option (Nat × Nat) → String
  | none => "-"
  | some (h, v) => s!"{h}.{v}"

def commas {α : Type} (f : α → String) (l : List α) : String := ",".intercalate (l.map f)

def insertBy {α : Type} (k : α → Nat) (x : α) : List α → List α
  | [] => [x]
  | y :: ys => if k x ≤ k y then x :: y :: ys else y :: insertBy k x ys

def sortBy {α : Type} (k : α → Nat) (l : List α) : List α := l.foldl (fun acc x => insertBy k x acc) []

def showCache (c : List (Nat × Mach.Inbox)) : String :=
  if c.isEmpty then "-" else
  "|".intercalate ((sortBy (·.1) c).map fun (h, b) =>
    let grp (tag : String) (body : Option Mach.Pl → String) (g : List (Nat × Mach.Pl)) : String :=
      tag ++ "+".intercalate ((sortBy (·.1) g).map fun (k, m) => s!"{k}@{m.hd.v}{body (some m)}")
    s!"{h}:" ++ grp "P" showPrep b.prepare ++ ";" ++ grp "V" (fun _ => "") b.chViews ++ ";" ++ grp "C" showCommit b.commit)

def showNode (nd : Mach.Node) : String :=
  s!"h={nd.bi} v={nd.view} p={nd.pidx} bs={if nd.blockProcessed then 1 else 0}" ++
  s!" prep={commas showPrep nd.prep} cm={commas showCommit nd.commit} cv={commas showCV nd.cv} lcv={commas showCV nd.lastCv}" ++
  s!" ls={commas showLS nd.lastSeen} th={showT nd.txHashes} ms={showT nd.missing} tx={nd.txs.length}" ++
  s!" tm={nd.timer.h}/{nd.timer.v}/{nd.timer.dur}/{if nd.timer.armed then 1 else 0}" ++
  s!" ch={nd.chain.length} lts={nd.lastTs} lp={showT nd.lastProposal} cache={showCache nd.cache}"

def showPl : Mach.Pl → String
  | .cv x r => s!"CV {x.frm} {x.h} {x.v} r{r}"
  | .prepReq x p => s!"PR {x.frm} {x.h} {x.v} p{p}"
  | .prepResp x p => s!"PS {x.frm} {x.h} {x.v} p{p}"
  | .commit x b => s!"CM {x.frm} {x.h} {x.v} signs({b.h},{b.v},p{b.p})"
  | .recReq x => s!"RR {x.frm} {x.h} {x.v}"
  | .recMsg x r => s!"RM {x.frm} {x.h} {x.v} cvs={r.cvs} req={r.req} ph={r.ph} preps={r.preps} commits={r.commits.map fun c => (c.1, c.2.1, c.2.2.v, c.2.2.p)}"

def showOut : Mach.Out → String
  | .bcast p => "emit " ++ showPl p
  | .proposal i => s!"proposal ts={i.ts} txs={i.txs}"
  | .timer h v d => s!"view {h} {v} {d}"
  | .extend d => s!"ext {d}"
  | .reqTx ts => s!"rtx {showT ts}"
  | .stopTx => "stx"
  | .block b sigs => s!"accept ({b.h},{b.v},p{b.p}) sigs={sigs}"

/-- match the next predicted action of node i -/
def expect (d : D) (i : Nat) (what : String) (ok : Mach.Out → Bool) : D × String :=
  if d.expBad != "" then (d, "bad " ++ d.expBad)
  else if d.expNode != i then (d, s!"bad machine: action of node {i} outside its event")
  else match d.exp with
    | [] => (d, s!"bad machine: predicted nothing more, the service did: {what}")
    | o :: rest =>
      if ok o then ({ d with exp := rest }, "ok")
      else ({ d with exp := rest }, s!"bad machine: predicted [{showOut o}], the service did: {what}")

/-- both answers in one -/
def both (a : D × String) (f : D → D × String) : D × String :=
  let (d, r1) := a
  let (d, r2) := f d
  (d, if r1 == "ok" then r2 else if r2 == "ok" then r1 else r1 ++ " ; " ++ r2)

def setPend (d : D) (i : Nat) (ev : Mach.Event) : D := { d with pend := some (i, ev) }

def onHint (d : D) (i now fresh : Nat) (hints : List Nat) : D × String :=
  match d.pend with
  | none => (d, "bad hint: no event")
  | some (j, ev) =>
    if j != i then (d, "bad hint: node")
    else
      let e := d.env
      let nd := d.ms.getD i {}
      let (nd', outs, oof) := Mach.step e nd ev now fresh hints d.gts
      -- the content of a proposal made now is checked against what the real PrepareRequest carries
      let bad := outs.foldl (fun acc o => match o with
        | .proposal info =>
          let real := e.prop fresh
          if real == info then acc
          else s!"machine: proposal content: predicted h={info.h} v={info.v} ts={info.ts} txs={info.txs} prev={info.prev} sroot={info.sroot}, the PrepareRequest carries h={real.h} v={real.v} ts={real.ts} txs={real.txs} prev={real.prev} sroot={real.sroot} ver={real.ver}"
        | _ => acc) (if oof then "machine: recursion bound hit" else "")
      let outs := outs.filter fun o => match o with | .proposal _ => false | _ => true
      ({ d with ms := d.ms.setIfInBounds i nd', pend := none, exp := outs, expNode := i, expBad := bad },
       if bad == "" then "ok" else "bad " ++ bad)

def step (d : D) (ws : List String) : D × String :=
  match ws with
  | ["case", k] => ({}, s!"case {k}")
  | ["epoch", c, g] =>
    match c.toNat? with
    | some c => ({ d with ep := some (c, Epoch.persist c g 0 ⟨g, g⟩) }, "ok")
    | none => (d, "bad epoch line")
  | ["vblock", h, elected] =>
    -- block h was made on the ledger of height h-1: its NextConsensus is that ledger's new-epoch list
    match d.ep, h.toNat? with
    | some (c, vs), some h =>
      let vs' := Epoch.persist c elected h vs
      ({ d with ep := some (c, vs') }, s!"nc={vs.newEpoch} next={vs'.next} cnbv={vs'.newEpoch}")
    | _, _ => (d, "bad vblock line")
  | ["init", n, tpb, maxTx, maxSize, maxFee, sr, baseV, baseP, gts] =>
    match n.toNat?, tpb.toNat?, maxTx.toNat?, maxSize.toNat?, maxFee.toNat?, baseV.toNat?, baseP.toNat?, gts.toNat? with
    | some n, some tpb, some maxTx, some maxSize, some maxFee, some baseV, some baseP, some gts =>
      let e : Mach.Env := { n := n, tpb := tpb, maxTx := maxTx, maxSize := maxSize, maxSysFee := maxFee, sr := sr == "1",
                            baseV := baseV, baseP := baseP }
      ({ c := { n := n }, s := normalize { n := n } init, e := e, gts := gts,
         ms := ((List.range n).map fun i => Mach.initNode e i).toArray }, "ok")
    | _, _, _, _, _, _, _, _ => (d, "bad-op")
  | ["txinfo", t, fee, size] =>
    match tnum t, fee.toNat?, size.toNat? with
    | some t, some fee, some size => ({ d with txi := (t, { sysFee := fee, size := size }) :: d.txi }, "ok")
    | _, _, _ => (d, "bad-op")
  | ["mp", i, l] =>
    match i.toNat? with
    | some i => ({ d with ms := d.ms.modify i fun nd => { nd with pool := tlist l } }, "ok")
    | none => (d, "bad-op")
  | "prop" :: p :: h :: v :: f :: ts :: prev :: sroot :: ver :: _ :: txs =>
    match p.toNat?, h.toNat?, v.toNat?, f.toNat?, ts.toNat?, prev.toNat?, sroot.toNat?, ver.toNat? with
    | some p, some h, some v, some f, some ts, some prev, some sroot, some ver =>
      ({ d with props := (p, { h := h, v := v, frm := f, ts := ts, txs := txs.filterMap tnum, prev := prev, sroot := sroot, ver := ver }) :: d.props }, "ok")
    | _, _, _, _, _, _, _, _ => (d, "bad-op")
  | ["start", i] =>
    match i.toNat? with
    | some i => (setPend d i .start, "ok")
    | none => (d, "bad-op")
  | ["tx", i, t] =>
    match i.toNat?, tnum t with
    | some i, some t => (setPend d i (.tx t), "ok")
    | _, _ => (d, "bad-op")
  | ["timeout", i, _, _] =>
    match i.toNat? with
    | some i => try_ (setPend d i .tick) (.timeout i) "timeout of a non-validator"
    | none => (d, "bad-op")
  | "deliver" :: to :: rest =>
    match to.toNat?, parseMsg d rest with
    | some to, some (d, m, _, _, _) =>
      match parsePl d rest with
      | none => (d, "bad deliver: unparsable payload (machine form)")
      | some pl =>
        let d := setPend d to (.recv pl)
        if d.tainted.contains to || d.tainted.contains pl.hd.frm then (d, "ok")
        else if Enabled d.c d.s (.dup to m) then (take (take d (.dup to m)) (.deliver to m), "ok")
        else (d, "bad deliver: this payload was never broadcast to this node")
    | _, _ => (d, "bad deliver: unparsable payload")
  -- a payload crafted by the harness (never broadcast by anybody): the guarded-command model has no
  -- Byzantine validator and does not see it; the machine must react to it like the real service
  | "forge" :: to :: rest =>
    match to.toNat?, parseMsg d rest with
    | some to, some (d, _, _, _, _) =>
      match parsePl d rest with
      | none => (d, "bad forge: unparsable payload (machine form)")
      | some pl =>
        -- a RecoveryMessage without a usable entry (probeRecovery: every compact entry names a validator outside
        -- the list and is skipped) carries nothing the guarded-command model could deliver: the receiver stays
        -- inside that model and its later steps are checked against it as usual
        let empty := match pl with
          | .recMsg _ r => r.cvs.isEmpty && r.req.isNone && r.preps.isEmpty && r.commits.isEmpty
          | _ => false
        ({ setPend d to (.recv pl) with tainted := if empty then d.tainted else to :: d.tainted }, "ok")
    | _, _ => (d, "bad forge: unparsable payload")
  | "hint" :: i :: now :: fresh :: _ :: hs =>
    match i.toNat?, now.toNat?, fresh.toNat? with
    | some i, some now, some fresh => onHint d i now fresh (hs.filterMap String.toNat?)
    | _, _, _ => (d, "bad-op")
  | "emit" :: i :: rest =>
    match i.toNat? with
    | some i =>
      both (if d.tainted.contains i then (d, "ok") else onEmit d i rest) fun d =>
        match parsePl d rest with
        | none => (d, "bad emit: unparsable payload (machine form)")
        | some pl => expect d i ("emit " ++ showPl pl) fun o => o == .bcast pl
    | none => (d, "bad-op")
  | ["view", i, h, v, dur] =>
    match i.toNat?, h.toNat?, v.toNat?, dur.toNat? with
    | some i, some h, some v, some dur =>
      let nd := d.s.nodes i
      let a : D × String :=
        if d.tainted.contains i then (d, "ok")
        else if h == nd.height && v == nd.view then (d, "ok")
        -- a height decided while cached payloads were replayed inside initializeConsensus: the timer
        -- reset at the end of initializeConsensus (dbft.go:159) still carries the decided height
        else if h < nd.height then (d, "ok")
        else if h == nd.height && v > nd.view then
          try_ d (.changeView i v) (s!"view change not enabled: asked {countP d.c.n (askedView nd.known nd.height v)} of M={d.c.m} " ++ describe d i)
        else (d, "bad view: " ++ describe d i)
      both a fun d => expect d i s!"view {h} {v} {dur}" fun o => o == .timer h v dur
    | _, _, _, _ => (d, "bad-op")
  | ["ext", i, dur] =>
    match i.toNat?, dur.toNat? with
    | some i, some dur => expect d i s!"ext {dur}" fun o => o == .extend dur
    | _, _ => (d, "bad-op")
  | ["rtx", i, l] =>
    match i.toNat? with
    | some i => expect d i s!"rtx {l}" fun o => o == .reqTx (tlist l)
    | none => (d, "bad-op")
  | ["stx", i] =>
    match i.toNat? with
    | some i => expect d i "stx" fun o => o == .stopTx
    | none => (d, "bad-op")
  | ["accept", i, h, b, verdict] =>
    match i.toNat?, h.toNat?, lookupB d b with
    | some i, some h, some b =>
      let a : D × String :=
        if verdict == "rej" || d.tainted.contains i then (d, "ok")     -- the ledger did not take it: nothing happens in the guarded-command model
        else if b.h == h then
          try_ d (.accept i b) (s!"accept not enabled: commits {countP d.c.n (committed (d.s.nodes i).known b)} of M={d.c.m} " ++ describe d i)
        else (d, "bad accept: height")
      both a fun d => expect d i s!"accept ({b.h},{b.v},p{b.p}) {verdict}" fun o => match o with
        | .block b' sigs => b' == b && ((sigs.all (·.2) && sigs.length == d.e.m) == (verdict == "ok"))
        | _ => false
    | _, _, _ => (d, "bad accept: unknown block")
  | ["block", i, h, b] =>
    match i.toNat?, h.toNat?, lookupB d b with
    | some i, some h, some b =>
      let d := setPend d i (.block b)
      if (d.s.nodes i).height != h then (d, "bad block: " ++ describe d i)
      else match (List.range d.c.n).find? (fun j => blockAt (d.s.nodes j) h == some b) with
        | some j => try_ d (.syncBlock i j) "block relay not enabled"
        | none => (d, "bad block: no ledger holds it")
    | _, _, _ => (d, "bad block: unknown block")
  | ["st", i] =>
    match i.toNat? with
    | some i => (d, s!"{(d.s.nodes i).height} {(d.s.nodes i).view}")
    | none => (d, "bad-op")
  | ["obs", i] =>
    match i.toNat? with
    | some i =>
      if d.expNode == i && !d.exp.isEmpty then
        ({ d with exp := [] }, "bad machine: predicted more: " ++ "; ".intercalate (d.exp.map showOut))
      else (d, showNode (d.ms.getD i {}))
    | none => (d, "bad-op")
  | _ => (d, "bad-op")

def main : IO Unit := Proto.run ({} : D) step
