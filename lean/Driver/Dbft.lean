/-
Driver for stream `dbft` (C19): trace validation. The harness runs real consensus.Service instances and
prints what happened, one line per event / per thing a node did; this driver replays the lines on the
protocol model `NeoModel.Dbft` and checks that every payload a node emitted and every local transition it
made is an ENABLED step of the model in the state reached by the preceding lines (then takes the step).

  case <k>                       -> case <k>           (reset)
  init <n>                       -> ok                 (n validators, everybody at height 1 view 0)
  start <i> | tx <i> | timeout <i> <h> <v>             -> ok   (no model guard: anything may time out)
  deliver <to> <payload>         -> ok | bad …         (the payload must have been broadcast before)
  emit <i> <payload>             -> ok | bad …         (the matching send step must be enabled at i)
  view <i> <h> <v>               -> ok | bad …         (timer reset: same (h,v) or an older height = nothing; v larger = changeView)
  accept <i> <h> <bN>            -> ok | bad …         (checkCommit → processBlock)
  block <i> <h> <bN>             -> ok | bad …         (block relay: some ledger must hold it)
  st <i>                         -> <height> <view>    (compared with the service's timer height/view)

payload ::= PR f h v pN bM | PS f h v pN | CM f h v bM | CV f h v nv | RR f h v
          | RM f h v k item…   with item ::= PR f h v pN | PS f h v pN | CM f h v bM | CV f h v nv
-/
import NeoModel.Base.Proto
import NeoModel.Model.Dbft
open NeoModel NeoModel.Dbft

structure D where
  c : Cfg := { n := 4 }
  s : State := init
  blocks : List (String × Block) := []

/-- keep the node map a flat array lookup (the model's `upd` builds a closure chain) -/
def normalize (c : Cfg) (s : State) : State :=
  let arr := ((List.range c.n).map s.nodes).toArray
  { s with nodes := fun i => arr.getD i {} }

def pnum (w : String) : Option Nat :=
  if w.startsWith "p" then (w.drop 1).toNat? else none

def lookupB (d : D) (w : String) : Option Block := (d.blocks.find? (fun e => e.1 == w)).map (·.2)

/-- parse one item off the front of a word list -/
def parseItem (d : D) : List String → Option (Item × List String)
  | "PR" :: f :: h :: v :: p :: rest => do
      let f ← f.toNat?; let h ← h.toNat?; let v ← v.toNat?; let p ← pnum p
      some (.prepReq f ⟨h, v, p⟩, rest)
  | "PS" :: f :: h :: v :: p :: rest => do
      let f ← f.toNat?; let h ← h.toNat?; let v ← v.toNat?; let p ← pnum p
      some (.prepResp f ⟨h, v, p⟩, rest)
  | "CM" :: f :: h :: _ :: b :: rest => do
      let f ← f.toNat?; let _ ← h.toNat?
      let b ← lookupB d b
      some (.commit f b, rest)
  | "CV" :: f :: h :: v :: nv :: rest => do
      let f ← f.toNat?; let h ← h.toNat?; let v ← v.toNat?; let nv ← nv.toNat?
      some (.changeView f h v nv, rest)
  | _ => none

def parseItems (d : D) : Nat → List String → Option (List Item)
  | 0, [] => some []
  | 0, _ => none
  | k + 1, ws => do
      let (it, rest) ← parseItem d ws
      let its ← parseItems d k rest
      some (it :: its)

/-- a top-level payload; a PrepareRequest also names its block -/
def parseMsg (d : D) : List String → Option (D × Msg × Nat × Nat × Nat)
  | ["PR", f, h, v, p, b] => do
      let f ← f.toNat?; let h ← h.toNat?; let v ← v.toNat?; let p ← pnum p
      let blk : Block := ⟨h, v, p⟩
      -- the block name must denote exactly this (height, view, proposal)
      match lookupB d b with
      | some blk' => if blk' = blk then some (d, .item (.prepReq f blk), f, h, v) else none
      | none =>
        if b == "b?" then none
        else if d.blocks.any (fun e => e.2 == blk) then none
        else some ({ d with blocks := (b, blk) :: d.blocks }, .item (.prepReq f blk), f, h, v)
  | ["RR", f, h, v] => do
      let f ← f.toNat?; let h ← h.toNat?; let v ← v.toNat?
      some (d, .recReq f h v, f, h, v)
  | "RM" :: f :: h :: v :: k :: rest => do
      let f ← f.toNat?; let h ← h.toNat?; let v ← v.toNat?; let k ← k.toNat?
      let its ← parseItems d k rest
      some (d, .recMsg f h v its, f, h, v)
  | ws => do
      let (it, rest) ← parseItem d ws
      if !rest.isEmpty then none
      match ws with
      | _ :: f :: h :: v :: _ => do
          let f ← f.toNat?; let h ← h.toNat?; let v ← v.toNat?
          some (d, .item it, f, h, v)
      | _ => none

def take (d : D) (a : Action) : D := { d with s := normalize d.c (apply d.c d.s a) }

def try_ (d : D) (a : Action) (what : String) : D × String :=
  if Enabled d.c d.s a then (take d a, "ok") else (d, "bad " ++ what)

def describe (d : D) (i : Nat) : String :=
  let nd := d.s.nodes i
  s!"(model: node {i} height {nd.height} view {nd.view} commits {nd.myCommits.length} preps {nd.myPreps.length})"

/-- A payload a node emits carries the node's current (height, view). dBFT resets its timer only at the
end of `initializeConsensus` (dbft.go:159), after it has replayed cached payloads, so a payload of the new
view can be observed before the timer reset that announces the view: take the view change first. -/
def catchUpView (d : D) (i h v : Nat) : D :=
  let nd := d.s.nodes i
  if h == nd.height && v > nd.view && Enabled d.c d.s (.changeView i v) then take d (.changeView i v) else d

def onEmit (d : D) (i : Nat) (ws : List String) : D × String :=
  match parseMsg d ws with
  | none => (d, "bad emit: unparsable or inconsistent payload")
  | some (d, m, f, h, v) =>
    let d := catchUpView d i h v
    let nd := d.s.nodes i
    if f != i then (d, "bad emit: validator index")
    else match m with
    | .item (.prepReq _ b) =>
        if b.h == nd.height && b.v == nd.view then try_ d (.sendPrepReq i b.p) ("emit PR not enabled " ++ describe d i)
        else (d, "bad emit PR: height/view " ++ describe d i)
    | .item (.prepResp _ b) => try_ d (.sendPrepResp i b) ("emit PS not enabled " ++ describe d i)
    | .item (.commit _ b) =>
        if b.v == v && b.h == h then
          try_ d (.sendCommit i b) (s!"emit CM not enabled: prepared {countP d.c.n (prepared nd.known b)} of M={d.c.m} " ++ describe d i)
        else (d, "bad emit CM: payload view differs from the signed block's")
    | .item (.changeView _ h' v' nv) =>
        if h' == nd.height && v' == nd.view && nv == v' + 1 then try_ d (.sendChangeView i) ("emit CV not enabled " ++ describe d i)
        else (d, "bad emit CV: height/view " ++ describe d i)
    | .recReq _ h' v' =>
        if h' == nd.height && v' == nd.view then try_ d (.sendRecReq i) "emit RR not enabled"
        else (d, "bad emit RR: height/view " ++ describe d i)
    | .recMsg _ h' v' its =>
        if h' == nd.height && v' == nd.view then
          try_ d (.sendRecMsg i its) ("emit RM not enabled: relays a payload the node never held " ++ describe d i)
        else (d, "bad emit RM: height/view " ++ describe d i)

def step (d : D) (ws : List String) : D × String :=
  match ws with
  | ["case", k] => ({}, s!"case {k}")
  | ["init", n] =>
    match n.toNat? with
    | some n => ({ c := { n := n }, s := normalize { n := n } init }, "ok")
    | none => (d, "bad-op")
  | ["start", _] => (d, "ok")
  | ["tx", _] => (d, "ok")
  | ["timeout", i, _, _] =>
    match i.toNat? with
    | some i => try_ d (.timeout i) "timeout of a non-validator"
    | none => (d, "bad-op")
  | "deliver" :: to :: rest =>
    match to.toNat?, parseMsg d rest with
    | some to, some (d, m, _, _, _) =>
      if Enabled d.c d.s (.dup to m) then (take (take d (.dup to m)) (.deliver to m), "ok")
      else (d, "bad deliver: this payload was never broadcast to this node")
    | _, _ => (d, "bad deliver: unparsable payload")
  | "emit" :: i :: rest =>
    match i.toNat? with
    | some i => onEmit d i rest
    | none => (d, "bad-op")
  | ["view", i, h, v] =>
    match i.toNat?, h.toNat?, v.toNat? with
    | some i, some h, some v =>
      let nd := d.s.nodes i
      if h == nd.height && v == nd.view then (d, "ok")
      -- a height decided while cached payloads were replayed inside initializeConsensus: the timer
      -- reset at the end of initializeConsensus (dbft.go:159) still carries the decided height
      else if h < nd.height then (d, "ok")
      else if h == nd.height && v > nd.view then
        try_ d (.changeView i v) (s!"view change not enabled: asked {countP d.c.n (askedView nd.known nd.height v)} of M={d.c.m} " ++ describe d i)
      else (d, "bad view: " ++ describe d i)
    | _, _, _ => (d, "bad-op")
  | ["accept", i, h, b] =>
    match i.toNat?, h.toNat?, lookupB d b with
    | some i, some h, some b =>
      if b.h == h then
        try_ d (.accept i b) (s!"accept not enabled: commits {countP d.c.n (committed (d.s.nodes i).known b)} of M={d.c.m} " ++ describe d i)
      else (d, "bad accept: height")
    | _, _, _ => (d, "bad accept: unknown block")
  | ["block", i, h, b] =>
    match i.toNat?, h.toNat?, lookupB d b with
    | some i, some h, some b =>
      if (d.s.nodes i).height != h then (d, "bad block: " ++ describe d i)
      else match (List.range d.c.n).find? (fun j => blockAt (d.s.nodes j) h == some b) with
        | some j => try_ d (.syncBlock i j) "block relay not enabled"
        | none => (d, "bad block: no ledger holds it")
    | _, _, _ => (d, "bad block: unknown block")
  | ["st", i] =>
    match i.toNat? with
    | some i => (d, s!"{(d.s.nodes i).height} {(d.s.nodes i).view}")
    | none => (d, "bad-op")
  | _ => (d, "bad-op")

def main : IO Unit := Proto.run ({} : D) step
