/-
Driver for stream `tokens` (C05).  One op per line, one observation per line.

  case K                                              -> case K
  init NOTARY NEOC C V ATTRFEE NOMINT GENESIS GASINIT -> ok            state after the natives' Initialize in block 0
  block IDX                                           -> ok
  onpersist PRIMARY NOTARIES NTX {SENDER SYS NET NKEYS|- PAYER|-}*     -> ok | panic | bad-op
  tx SENDER                                           -> ok
  transfer neo|gas SRC DST AMT WIT RECV DATA          -> .             RECV n|a|x|cb   DATA o | nt DTO|- TILL | pk PUB WIT
  vote ACC PUB|- WIT | register PUB | unregister PUB WIT | lock ACC TILL WIT
  withdraw SRC DST|- WIT RECV | setgpb GAS WIT | setregprice P WIT | endcb            -> .
  endtx ABORT                                         -> HALT r1 r2 .. | FAULT
  postpersist pub:acc:votes,...                       -> ok | panic | bad-op
  endblock                                            -> st neo=.. gas=.. cands=.. vc=.. dep=.. gpv=..
-/
import NeoModel.Base.Proto
import NeoModel.Model.Tokens
open NeoModel NeoModel.Tokens

namespace TokensDrv

def insertBy {α : Type} (x : Nat × α) : List (Nat × α) → List (Nat × α)
  | [] => [x]
  | y :: r => if x.1 ≤ y.1 then x :: y :: r else y :: insertBy x r

def sortAL {α : Type} (m : List (Nat × α)) : List (Nat × α) := m.foldl (fun acc x => insertBy x acc) []

def showList {α : Type} (m : List (Nat × α)) (f : Nat → α → String) : String :=
  "[" ++ ",".intercalate ((sortAL m).map fun (k, v) => f k v) ++ "]"

def showVote : Option Nat → String
  | none => "-"
  | some p => toString p

def stateLine (l : Ledger) : String :=
  "st neo=" ++ toString l.neoSupply ++
    showList l.neo (fun k a => s!"{k}:{a.bal}:{a.height}:{showVote a.vote}:{a.lgpv}") ++
  " gas=" ++ toString l.gasSupply ++ showList l.gas (fun k b => s!"{k}:{b}") ++
  " cands=" ++ showList l.cands (fun k c => s!"{k}:{if c.reg then 1 else 0}:{c.votes}") ++
  " vc=" ++ toString l.voters ++
  " dep=" ++ showList l.deps (fun k d => s!"{k}:{d.amount}:{d.till}") ++
  " gpv=" ++ showList l.gpv (fun k v => s!"{k}:{v}")

def optNat (s : String) : Option (Option Nat) :=
  if s == "-" then some none else s.toNat?.map some

def parseBool (s : String) : Option Bool :=
  if s == "1" then some true else if s == "0" then some false else none

def parseTok (s : String) : Option Tok :=
  if s == "neo" then some .neo else if s == "gas" then some .gas else none

def parseRecv (s : String) : Option Recv :=
  if s == "n" then some .none else if s == "a" then some .accept
  else if s == "x" then some .throws else if s == "cb" then some .cb else none

def parseData : List String → Option Data
  | ["o"] => some .other
  | ["nt", dto, till] => do
    let d ← optNat dto
    let t ← till.toNat?
    pure (.notary d t)
  | ["pk", p, w] => do
    let p ← p.toNat?
    let w ← parseBool w
    pure (.pub p w)
  | _ => none

def parseNatList (s : String) : Option (List Nat) :=
  if s == "-" then some [] else (s.splitOn ",").mapM String.toNat?

def parseTxs : Nat → List String → Option (List TxFee)
  | 0, [] => some []
  | n + 1, sender :: sys :: net :: nk :: payer :: rest => do
    let s ← sender.toNat?
    let sy ← sys.toInt?
    let ne ← net.toInt?
    let k ← optNat nk
    let p ← optNat payer
    let r ← parseTxs n rest
    pure (⟨s, sy, ne, k, p⟩ :: r)
  | _, _ => none

def parseMember (s : String) : Option (Nat × Nat × Int) :=
  match s.splitOn ":" with
  | [p, a, v] => do
    let p ← p.toNat?
    let a ← a.toNat?
    let v ← v.toInt?
    pure (p, a, v)
  | _ => none

def parseOp : List String → Option Op
  | ["block", i] => do pure (.block (← i.toNat?))
  | "onpersist" :: primary :: notaries :: ntx :: rest => do
    let p ← primary.toNat?
    let ns ← parseNatList notaries
    let n ← ntx.toNat?
    let txs ← parseTxs n rest
    pure (.onPersist p ns txs)
  | ["tx", s] => do pure (.txBegin (← s.toNat?))
  | "transfer" :: t :: src :: dst :: amt :: wit :: recv :: data => do
    pure (.transfer (← parseTok t) (← src.toNat?) (← dst.toNat?) (← amt.toInt?) (← parseBool wit) (← parseRecv recv) (← parseData data))
  | ["vote", a, p, w] => do pure (.vote (← a.toNat?) (← optNat p) (← parseBool w))
  | ["register", p] => do pure (.register (← p.toNat?))
  | ["unregister", p, w] => do pure (.unregister (← p.toNat?) (← parseBool w))
  | ["lock", a, t, w] => do pure (.lock (← a.toNat?) (← t.toNat?) (← parseBool w))
  | ["withdraw", s, d, w, r] => do pure (.withdraw (← s.toNat?) (← optNat d) (← parseBool w) (← parseRecv r))
  | ["setgpb", g, w] => do pure (.setGpb (← g.toInt?) (← parseBool w))
  | ["setregprice", p, w] => do pure (.setRegPrice (← p.toInt?) (← parseBool w))
  | ["endcb"] => some .endCb
  | ["endtx", a] => do pure (.txEnd (← parseBool a))
  | ["postpersist", ms] => do
    let l ← (if ms == "-" then some [] else (ms.splitOn ",").mapM parseMember)
    pure (.postPersist l)
  | _ => none

def showRes : Res → String
  | .t => "T"
  | .f => "F"
  | .null => "N"

def output (s : St) (op : Op) (s' : St) : String :=
  match op with
  | .block _ => "ok"
  | .txBegin _ => "ok"
  | .onPersist .. | .postPersist .. =>
    if s'.panicked && !s.panicked then "panic" else "ok"
  | .txEnd _ =>
    match s'.last with
    | none => "FAULT"
    | some rs => " ".intercalate ("HALT" :: rs.reverse.map showRes)
  | _ => "."

def step (s : Option St) (ws : List String) : Option St × String :=
  match ws with
  | ["case", k] => (none, s!"case {k}")
  | ["init", notary, neoC, c, v, fee, nm, g, gi] =>
    match notary.toNat?, neoC.toNat?, c.toNat?, v.toNat?, fee.toInt?, parseNatList nm, g.toNat?, gi.toInt? with
    | some notary, some neoC, some c, some v, some fee, some nm, some g, some gi =>
      match genesis g gi with
      | some l => (some (initSt ⟨notary, neoC, c, v, fee, nm, 0, 0⟩ l), "ok")
      | none => (none, "panic")
    | _, _, _, _, _, _, _, _ => (s, "bad-op")
  | ["endblock"] =>
    match s with
    | some st => (s, stateLine st.cur)
    | none => (s, "no-state")
  | _ =>
    match s, parseOp ws with
    | some st, some op =>
      let st' := Tokens.step st op
      (some st', output st op st')
    | _, _ => (s, "bad-op")

end TokensDrv

def main : IO Unit := Proto.run (none : Option St) TokensDrv.step
