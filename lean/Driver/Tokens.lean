/-
Driver for stream `tokens` (C05).  One op per line, one observation per line.

  case K                                              -> case K
  init NOTARY NEOC GASC POLICYC C V ATTRFEE NOMINT GENESIS GASINIT STANDBY KEYACC MSIG CONTRACTS DESIGC
                                                      -> ok            state after block 0's OnPersist (natives initialised)
       STANDBY k,k,..   KEYACC k:acc,..   MSIG acc:k:k:..,..|-   CONTRACTS acc:w|x|a,.. (wallet / no callback / accepts)
  block IDX                                           -> ok | ok cc    cc = CommitteeChanged is emitted
  onpersist PRIMARYINDEX NTX {SENDER SYS NET NKEYS|- PAYER|-}*              -> ok | ok uncovered | panic | bad-op
                                                      (uncovered: the hypothesis of onpersist_total fails on this block)
  tx SENDER SIGNERS                                   -> ok            SIGNERS acc:scopes[:allowed..][:r:±COND..],..
                                                      COND prefix notation, `.`-separated: T F N A O E S<id> C<id> G H
  transfer neo|gas SRC DST AMT CALLER DK DATA         -> .             DK n|c|o (data null / [hash,method,args] / other)   DATA o | nt DTO|- TILL | pk PUB
                                                                       CALLER = calling contract or - (entry script)
  vote ACC PUB|- CALLER [cb] | register PUB CALLER | unregister PUB CALLER | lock ACC TILL CALLER
  withdraw SRC DST|- CALLER | setgpb GAS CALLER | setregprice P CALLER
  blockacc ACC CALLER | unblockacc ACC CALLER | designate ACC,ACC,..|- CALLER | endcb                                 -> .
  endtx ABORT                                         -> HALT r1 r2 .. | FAULT
  postpersist                                         -> ok | panic
  endblock                                            -> st neo=.. gas=.. cands=.. vc=.. dep=.. gpv=.. cm=.. nv=.. nev=..
                                                            gc=.. gcm=.. bl=.. uc=.. mb=.. ev=..
-/
import NeoModel.Base.Proto
import NeoModel.Model.Tokens
open NeoModel NeoModel.Tokens

namespace TokensDrv

def insertBy {α : Type} (x : Nat × α) : List (Nat × α) → List (Nat × α)
  | [] => [x]
  | y :: r => if x.1 ≤ y.1 then x :: y :: r else y :: insertBy x r

def sortAL {α : Type} (m : List (Nat × α)) : List (Nat × α) := m.foldl (fun acc x => insertBy x acc) []

def showList {α : Type} (m : List (Nat × α)) (f : Nat → α → String) : String :=
  "[" ++ ",".intercalate ((sortAL m).map fun (k, v) => f k v) ++ "]"

def showVote : Option Nat → String
  | none => "-"
  | some p => toString p

def showRaw {α : Type} (m : List α) (f : α → String) : String :=
  "[" ++ ",".intercalate (m.map f) ++ "]"

def showOptNat : Option Nat → String
  | none => "-"
  | some p => toString p

def showEvent (e : Event) : String :=
  (match e.tok with | .neo => "n" | .gas => "g") ++ ":" ++ showOptNat e.src ++ ":" ++ showOptNat e.dst ++ ":" ++ toString e.amt

def natLe (a b : Nat) : Bool := decide (a ≤ b)

/-- the observations of the governance getters and of the reward formulas after the block `e.index`. -/
def govLine (e : Env) (l : Ledger) : String :=
  " cm=" ++ showRaw l.committee (fun c => s!"{c.1}:{c.2}") ++
  " nv=" ++ showRaw l.nextVals toString ++
  " nev=" ++ showRaw l.neVals toString ++
  " gc=" ++ showRaw (candsByKey e l 256) (fun c => s!"{c.1}:{c.2}") ++
  " gcm=" ++ showRaw (sortBy natLe (l.committee.map (·.1))) toString ++
  " bl=" ++ showRaw (sortBy natLe l.blocked) toString ++
  " uc=" ++ showList l.neo (fun k a => s!"{k}:{match calcBonus l a (e.index + 1) with | some g => toString g | none => "err"}") ++
  " mb=" ++ toString l.gasMinted ++ ":" ++ toString l.gasBurned ++
  " ev=" ++ showRaw l.events showEvent

def stateLine (l : Ledger) : String :=
  "st neo=" ++ toString l.neoSupply ++
    showList l.neo (fun k a => s!"{k}:{a.bal}:{a.height}:{showVote a.vote}:{a.lgpv}") ++
  " gas=" ++ toString l.gasSupply ++ showList l.gas (fun k b => s!"{k}:{b}") ++
  " cands=" ++ showList l.cands (fun k c => s!"{k}:{if c.reg then 1 else 0}:{c.votes}") ++
  " vc=" ++ toString l.voters ++
  " dep=" ++ showList l.deps (fun k d => s!"{k}:{d.amount}:{d.till}") ++
  " gpv=" ++ showList l.gpv (fun k v => s!"{k}:{v}")

def optNat (s : String) : Option (Option Nat) :=
  if s == "-" then some none else s.toNat?.map some

def parseBool (s : String) : Option Bool :=
  if s == "1" then some true else if s == "0" then some false else none

def parseTok (s : String) : Option Tok :=
  if s == "neo" then some .neo else if s == "gas" then some .gas else none

def parseDk (s : String) : Option DataKind :=
  if s == "n" then some .null else if s == "c" then some .call else if s == "o" then some .other else none

def parseContract (s : String) : Option (Nat × CKind) :=
  match s.splitOn ":" with
  | [a, k] => do
    let a ← a.toNat?
    let k ← (if k == "w" then some CKind.wallet else if k == "x" then some CKind.noCallback
      else if k == "a" then some CKind.accepts else none)
    pure (a, k)
  | _ => none

def parseData : List String → Option Data
  | ["o"] => some .other
  | ["nt", dto, till] => do
    let d ← optNat dto
    let t ← till.toNat?
    pure (.notary d t)
  | ["pk", p] => do
    let p ← p.toNat?
    pure (.pub p)
  | _ => none

def parseNatList (s : String) : Option (List Nat) :=
  if s == "-" then some [] else (s.splitOn ",").mapM String.toNat?

def parseTxs : Nat → List String → Option (List TxFee)
  | 0, [] => some []
  | n + 1, sender :: sys :: net :: nk :: payer :: rest => do
    let s ← sender.toNat?
    let sy ← sys.toInt?
    let ne ← net.toInt?
    let k ← optNat nk
    let p ← optNat payer
    let r ← parseTxs n rest
    pure (⟨s, sy, ne, k, p⟩ :: r)
  | _, _ => none

def parseMember (s : String) : Option (Nat × Nat × Int) :=
  match s.splitOn ":" with
  | [p, a, v] => do
    let p ← p.toNat?
    let a ← a.toNat?
    let v ← v.toInt?
    pure (p, a, v)
  | _ => none

/-- a witness condition in prefix notation, tokens separated by `.`: T F | N c | A c c | O c c | E | S<id> | C<id> | G | H -/
def parseCond : Nat → List String → Option (Cond × List String)
  | 0, _ => none
  | _, [] => none
  | f + 1, tok :: r =>
    if tok == "T" then some (.bool true, r)
    else if tok == "F" then some (.bool false, r)
    else if tok == "E" then some (.calledByEntry, r)
    else if tok == "G" then some (.group, r)
    else if tok == "H" then some (.calledByGroup, r)
    else if tok == "N" then do
      let (c, r1) ← parseCond f r
      pure (.not c, r1)
    else if tok == "A" then do
      let (a, r1) ← parseCond f r
      let (b, r2) ← parseCond f r1
      pure (.and a b, r2)
    else if tok == "O" then do
      let (a, r1) ← parseCond f r
      let (b, r2) ← parseCond f r1
      pure (.or a b, r2)
    else if tok.startsWith "S" then (tok.drop 1).toString.toNat?.map (fun h => (.scriptHash h, r))
    else if tok.startsWith "C" then (tok.drop 1).toString.toNat?.map (fun h => (.calledByContract h, r))
    else none

/-- `+cond` = allow, `-cond` = deny -/
def parseRule (s : String) : Option (Bool × Cond) :=
  let allow := s.startsWith "+"
  if !(allow || s.startsWith "-") then none
  else
    match parseCond 64 ((s.drop 1).toString.splitOn ".") with
    | some (c, []) => some (allow, c)
    | _ => none

/-- acc:scopes[:allowed contract]*[:r[:rule]*] -/
def parseSigner (s : String) : Option Signer :=
  match s.splitOn ":" with
  | a :: sc :: rest => do
    let a ← a.toNat?
    let sc ← sc.toNat?
    let al ← (rest.takeWhile (· != "r")).mapM String.toNat?
    let rs ← ((rest.dropWhile (· != "r")).drop 1).mapM parseRule
    pure ⟨a, sc, al, rs⟩
  | _ => none

def parseList {α : Type} (f : String → Option α) (s : String) : Option (List α) :=
  if s == "-" then some [] else (s.splitOn ",").mapM f

def parsePair (s : String) : Option (Nat × Nat) :=
  match s.splitOn ":" with
  | [a, b] => do pure (← a.toNat?, ← b.toNat?)
  | _ => none

def parseMsig (s : String) : Option (Nat × List Nat) :=
  match s.splitOn ":" with
  | a :: ks => do pure (← a.toNat?, ← ks.mapM String.toNat?)
  | _ => none

def parseOp : List String → Option Op
  | ["block", i] => do pure (.block (← i.toNat?))
  | "onpersist" :: primary :: ntx :: rest => do
    let p ← primary.toNat?
    let n ← ntx.toNat?
    let txs ← parseTxs n rest
    -- the designated notary nodes are filled in from the model's ledger (TokensDrv.step)
    pure (.onPersist p [] txs)
  | ["designate", ns, c] => do pure (.designate (← parseNatList ns) (← optNat c))
  | ["tx", s, sg] => do pure (.txBegin (← s.toNat?) (← parseList parseSigner sg))
  | "transfer" :: t :: src :: dst :: amt :: c :: recv :: data => do
    pure (.transfer (← parseTok t) (← src.toNat?) (← dst.toNat?) (← amt.toInt?) (← optNat c) (← parseDk recv) (← parseData data))
  | ["vote", a, p, c] => do pure (.vote (← a.toNat?) (← optNat p) (← optNat c) false)
  | ["vote", a, p, c, "cb"] => do pure (.vote (← a.toNat?) (← optNat p) (← optNat c) true)
  | ["register", p, c] => do pure (.register (← p.toNat?) (← optNat c))
  | ["unregister", p, c] => do pure (.unregister (← p.toNat?) (← optNat c))
  | ["lock", a, t, c] => do pure (.lock (← a.toNat?) (← t.toNat?) (← optNat c))
  | ["withdraw", s, d, c] => do pure (.withdraw (← s.toNat?) (← optNat d) (← optNat c))
  | ["setgpb", g, c] => do pure (.setGpb (← g.toInt?) (← optNat c))
  | ["setregprice", p, c] => do pure (.setRegPrice (← p.toInt?) (← optNat c))
  | ["blockacc", a, c] => do pure (.blockAcc (← a.toNat?) (← optNat c))
  | ["unblockacc", a, c] => do pure (.unblockAcc (← a.toNat?) (← optNat c))
  | ["endcb"] => some .endCb
  | ["endtx", a] => do pure (.txEnd (← parseBool a))
  | ["postpersist"] => some .postPersist
  | _ => none

def showRes : Res → String
  | .t => "T"
  | .f => "F"
  | .null => "N"

def output (s : St) (op : Op) (s' : St) : String :=
  match op with
  | .block _ => if s.env.csize ≠ 0 ∧ s'.env.index % s.env.csize = 0 ∧ committeeChanged s.cur then "ok cc" else "ok"
  | .txBegin .. => "ok"
  | .onPersist pidx _ txs =>
    if s'.panicked && !s.panicked then "panic"
    else if coveredB s.env s.cur pidx txs then "ok" else "ok uncovered"
  | .postPersist =>
    if s'.panicked && !s.panicked then "panic" else "ok"
  | .txEnd _ =>
    match s'.last with
    | none => "FAULT"
    | some rs => " ".intercalate ("HALT" :: rs.reverse.map showRes)
  | _ => "."

def step (s : Option St) (ws : List String) : Option St × String :=
  match ws with
  | ["case", k] => (none, s!"case {k}")
  | ["init", notary, neoC, gasC, policyC, c, v, fee, nm, g, gi, sb, ka, ms, cts, dc] =>
    match notary.toNat?, neoC.toNat?, gasC.toNat?, policyC.toNat?, c.toNat?, v.toNat?, fee.toInt?, parseNatList nm,
        g.toNat?, gi.toInt?, parseNatList sb, parseList parsePair ka, parseList parseMsig ms, parseList parseContract cts, dc.toNat? with
    | some notary, some neoC, some gasC, some policyC, some c, some v, some fee, some nm, some g, some gi, some sb,
        some ka, some ms, some cts, some dc =>
      let e : Env := { notary := notary, neoC := neoC, csize := c, vcount := v, attrFee := fee, noMint := nm,
                       standby := sb, keyAcc := ka, gasC := gasC, policyC := policyC, msig := ms, contracts := cts, desigC := dc }
      match genesis e g gi with
      | some l => (some (initSt e l), "ok")
      | none => (none, "panic")
    | _, _, _, _, _, _, _, _, _, _, _, _, _, _, _ => (s, "bad-op")
  | ["endblock"] =>
    match s with
    | some st => (s, stateLine st.cur ++ govLine st.env st.cur)
    | none => (s, "no-state")
  | _ =>
    match s, parseOp ws with
    | some st, some op =>
      -- Notary.OnPersist rewards the nodes of the latest designation (GetNotaryNodes): the model's own record
      let op := match op with
        | .onPersist p _ txs => Op.onPersist p st.cur.notaryNodes txs
        | o => o
      let st' := Tokens.step st op
      (some st', output st op st')
    | _, _ => (s, "bad-op")

end TokensDrv

def main : IO Unit := Proto.run (none : Option St) TokensDrv.step
