/-
Driver for stream `mptrc` (C11): keeps the model's trie, refcount map and node store per case and
prints, after every operation, the same summary of the DataMPT records the harness prints for the
real store (count, digest, changed records), under real double SHA-256.

  case <k>                 -> case <k>
  mode all|latest|gc       -> ok
  blk <idx> <sub>...       -> r=<root> n=<records> dg=<digest> ch=<changes> | panic
  blkq <idx> <sub>...      -> r=<root>
  drop <idx> <sub>...      -> r=<root>
  gc <G>                   -> n=.. dg=.. ch=..
  gcq <G>                  -> ok
  sync                     -> n=.. dg=.. ch=..
  reset                    -> ok
  restore <idx> <k>=<v>,.. -> r=<root> n=.. dg=.. ch=..   (Billet restore of the trie with these contents, the state of height idx, into an empty store)
  get <h> <key>            -> <value> | none
  wild                     -> ok
  sub: p:<key>:<val>  d:<key>  b:<key>=<val|del>,...
-/
import NeoModel.Base.Proto
import NeoModel.Base.Sha256
import NeoModel.Model.MptRc
open NeoModel NeoModel.Mpt NeoModel.MptRc

def H : Bytes → Bytes := Sha256.hash2

structure DSt where
  s : St := {}
  printed : Store := []

def le32 (n : Nat) : Bytes :=
  [UInt8.ofNat (n % 256), UInt8.ofNat (n / 256 % 256), UInt8.ofNat (n / 65536 % 256), UInt8.ofNat (n / 16777216 % 256)]

def cellRaw : Cell → Bytes
  | .plain b => b
  | .rc b a n => b ++ [if a then 1 else 0] ++ le32 n

def cellTag : Cell → String
  | .plain _ => "p"
  | .rc _ true n => s!"a{n}"
  | .rc _ false n => s!"i{n}"

def short (k : Bytes) : String := Hex.encode (k.take 4)

/-- changed records between two sorted stores. -/
partial def changes : Store → Store → List String
  | [], [] => []
  | (k, _) :: r, [] => (short k ++ ":-") :: changes r []
  | [], (k, c) :: r => (short k ++ ":" ++ cellTag c) :: changes [] r
  | (k1, c1) :: r1, (k2, c2) :: r2 =>
    if k1 = k2 then
      (if c1 = c2 then changes r1 r2 else (short k2 ++ ":" ++ cellTag c2) :: changes r1 r2)
    else if bytesLt k1 k2 then (short k1 ++ ":-") :: changes r1 ((k2, c2) :: r2)
    else (short k2 ++ ":" ++ cellTag c2) :: changes ((k1, c1) :: r1) r2

def storeObs (prev cur : Store) : String :=
  let body : Bytes := cur.flatMap fun e => e.1 ++ le32 (cellRaw e.2).length ++ cellRaw e.2
  let dg := (Sha256.hash body).take 8
  let ch := changes prev cur
  let cs := if ch.isEmpty then "-" else String.intercalate "," ch
  s!"n={cur.length} dg={Hex.encode dg} ch={cs}"

def splitOn (s : String) (c : Char) : List String := s.splitOn (String.singleton c)

def parseKV (e : String) : Option KV :=
  match splitOn e '=' with
  | [k, v] => do
    let kb ← Hex.decode k
    let ov ← (if v == "del" then some none else (Hex.decode v).map some)
    pure (toNibbles kb, ov)
  | _ => none

def parseSub (w : String) : Option SubOp :=
  match splitOn w ':' with
  | ["p", k, v] => do
    let kb ← Hex.decode k
    let vb ← Hex.decode v
    pure (.put (toNibbles kb) vb)
  | ["d", k] => do
    let kb ← Hex.decode k
    pure (.del (toNibbles kb))
  | ["b", es] =>
    if es == "" then some (.batch [])
    else (splitOn es ',').mapM parseKV |>.map .batch
  | _ => none

def parseSubs (ws : List String) : Option (List SubOp) := ws.mapM parseSub

def step (d : DSt) (ws : List String) : DSt × String :=
  match ws with
  | ["case", k] => ({}, s!"case {k}")
  | ["mode", m] =>
    let mode := if m == "latest" then Mode.latest else if m == "gc" then Mode.gc else Mode.all
    ({ d with s := { d.s with mode := mode } }, "ok")
  | "blk" :: idx :: subs =>
    match idx.toNat?, parseSubs subs with
    | some i, some ops =>
      match commit H d.s i ops with
      | none => (d, "panic")
      | some s' =>
        ({ s := s', printed := s'.store },
          s!"r={Hex.encode (rootHash H s'.root)} {storeObs d.printed s'.store}")
    | _, _ => (d, "bad-op")
  | "blkq" :: idx :: subs =>
    match idx.toNat?, parseSubs subs with
    | some i, some ops =>
      let t' := trieAfter d.s.root ops
      let r := rootHash H t'
      match commit H d.s i ops with
      | none => ({ d with s := { d.s with root := t', roots := (i, r) :: d.s.roots } }, s!"r={Hex.encode r}")
      | some s' => ({ d with s := s' }, s!"r={Hex.encode r}")
    | _, _ => (d, "bad-op")
  | "drop" :: idx :: subs =>
    match idx.toNat?, parseSubs subs with
    | some i, some ops =>
      let t' := trieAfter d.s.root ops
      let r := rootHash H t'
      match dropBlock H d.s i ops with
      | none => ({ d with s := { d.s with root := t' } }, s!"r={Hex.encode r}")
      | some s' => ({ d with s := s' }, s!"r={Hex.encode r}")
    | _, _ => (d, "bad-op")
  | ["gc", g] =>
    match g.toNat? with
    | some gi =>
      let s' := gcSt d.s gi
      ({ s := s', printed := s'.store }, storeObs d.printed s'.store)
    | none => (d, "bad-op")
  | ["gcq", g] =>
    match g.toNat? with
    | some gi => ({ d with s := gcSt d.s gi }, "ok")
    | none => (d, "bad-op")
  | ["sync"] => ({ d with printed := d.s.store }, storeObs d.printed d.s.store)
  | ["reset"] => ({ d with s := reset d.s }, "ok")
  | ["restore", idx, es] =>
    match idx.toNat?, (if es == "-" then some [] else (splitOn es ',').mapM parseKV) with
    | some i, some m =>
      let t := putBatch .empty (mapToBatch m)
      let st := restoreAll H d.s.mode [] t
      ({ s := { d.s with root := t, rc := [], store := st, roots := [(i, rootHash H t)], hist := [(i, t)] },
         printed := st },
        s!"r={Hex.encode (rootHash H t)} {storeObs [] st}")
    | _, _ => (d, "bad-op")
  | ["wild"] => (d, "ok")
  | ["get", h, k] =>
    match h.toNat?, Hex.decode k with
    | some hn, some kb =>
      match d.s.roots.lookup hn with
      | some root =>
        match readAt d.s.store root kb with
        | .found v => (d, Hex.encode v)
        | _ => (d, "none")
      | none => (d, "no-such-height")
    | _, _ => (d, "bad-op")
  | _ => (d, "bad-op")

def main : IO Unit := Proto.run ({} : DSt) step
