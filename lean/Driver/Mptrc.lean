/-
Driver for stream `mptrc` (C11): keeps the model's trie, refcount map and LAYERED node store
(MemCachedStore over the persistent store, Model/MptRc/Layered.lean) per case and prints, after every
operation, the same summary of the merged DataMPT records the harness prints for the real store
(count, digest, changed records), under real double SHA-256. After a restart / Collapse / restore
the blocks run on a "partly loaded" trie: every node an event touches is re-loaded from the store
first (`loadNode`, trie.go:518-545), a superset of the loads of the real code.

  case <k>                 -> case <k>
  mode all|latest|gc       -> ok
  cfg <gcp> <p2p> <ssi> <mtb>  -> ok           (the node's GC configuration, MaxTraceableBlocks)
  mtb <v>                  -> mtb=<n>          (a committee transaction asked for MaxTraceableBlocks v)
  hfcfg <at> <gen>         -> ok               (Echidna from height <at> on only, Genesis.MaxTraceableBlocks <gen>)
  mtbnow                   -> mtb=<n>          (the translated GetMaxTraceableBlocks at the current height; taken as a lowering)
  blk <idx> <sub>...       -> r=<root> n=<records> dg=<digest> ch=<changes> | panic
  blkq <idx> <sub>...      -> r=<root>
  drop <idx> <sub>...      -> r=<root>         (AddMPTBatch + DropMPTBatch: computed, never committed)
  dropold <idx> <sub>...   -> r=<root>         (self-test: AddMPTBatch without DropMPTBatch)
  persist                  -> up=<puts>/<dels>  (MemCachedStore.Persist; what was waiting in the upper layer)
  rungc                    -> gc=<g|-> n=.. dg=.. ch=..   (Run: tryRunGC(oldPersisted) — the model CHOOSES the index)
  tickchk <mtb> <old> <new> -> gc=<g|->        (tryRunGC's decision alone)
  gc <G>                   -> n=.. dg=.. ch=..  (Persist, then Module.GC(G) on the persistent store)
  gcl <G>                  -> up=<puts>/<dels> n=.. dg=.. ch=..  (Module.GC(G) on the persistent store, nothing persisted first)
  gcq <G>                  -> ok
  sync                     -> n=.. dg=.. ch=..
  reset                    -> ok
  restore <idx> <k>=<v>,.. [<sched>] -> r=<root> n=.. dg=.. ch=..   (Billet restore of the trie with these contents, the state of height idx, into an empty store; sched: 0/1 per restoration = persisted before it)
  jump <idx> <k>=<v>,.. <sched> -> r=<root> up=<puts>/<dels> n=.. dg=.. ch=..   (CleanStorage, Billet restore, Module.JumpToState)
  get <h> <key>            -> <value> | none
  wild                     -> ok
  sub: p:<key>:<val>  d:<key>  b:<key>=<val|del>,...
-/
import NeoModel.Base.Proto
import NeoModel.Base.Sha256
import NeoModel.Model.MptRc
import NeoModel.Model.MptRc.Layered
open NeoModel NeoModel.Mpt NeoModel.MptRc

def H : Bytes → Bytes := Sha256.hash2

structure DSt where
  c : Chain := { cfg := { gcp := 1 }, mtb := 0, mode := .all }
  printed : Store := []
  lazy : Bool := false
  node : Bool := false     -- a core.Blockchain (after `cfg`): storeBlock's Collapse(10) applies
  hfAt : Option Nat := none   -- `hfcfg`: Echidna is enabled from this height on only
  genMtb : Nat := 0           -- Genesis.MaxTraceableBlocks (the Policy's initial value)
  cfgMtb : Nat := 0           -- MaxTraceableBlocks of the configuration
def le32 (n : Nat) : Bytes :=
  [UInt8.ofNat (n % 256), UInt8.ofNat (n / 256 % 256), UInt8.ofNat (n / 65536 % 256), UInt8.ofNat (n / 16777216 % 256)]

def cellRaw : Cell → Bytes
  | .plain b => b
  | .rc b a n => b ++ [if a then 1 else 0] ++ le32 n

def cellTag : Cell → String
  | .plain _ => "p"
  | .rc _ true n => s!"a{n}"
  | .rc _ false n => s!"i{n}"

def short (k : Bytes) : String := Hex.encode (k.take 4)

/-- changed records between two sorted stores. -/
partial def changes : Store → Store → List String
  | [], [] => []
  | (k, _) :: r, [] => (short k ++ ":-") :: changes r []
  | [], (k, c) :: r => (short k ++ ":" ++ cellTag c) :: changes [] r
  | (k1, c1) :: r1, (k2, c2) :: r2 =>
    if k1 = k2 then
      (if c1 = c2 then changes r1 r2 else (short k2 ++ ":" ++ cellTag c2) :: changes r1 r2)
    else if bytesLt k1 k2 then (short k1 ++ ":-") :: changes r1 ((k2, c2) :: r2)
    else (short k2 ++ ":" ++ cellTag c2) :: changes ((k1, c1) :: r1) r2

def storeObs (prev cur : Store) : String :=
  let body : Bytes := cur.flatMap fun e => e.1 ++ le32 (cellRaw e.2).length ++ cellRaw e.2
  let dg := (Sha256.hash body).take 8
  let ch := changes prev cur
  let cs := if ch.isEmpty then "-" else String.intercalate "," ch
  s!"n={cur.length} dg={Hex.encode dg} ch={cs}"

def splitOn (s : String) (c : Char) : List String := s.splitOn (String.singleton c)

def parseKV (e : String) : Option KV :=
  match splitOn e '=' with
  | [k, v] => do
    let kb ← Hex.decode k
    let ov ← (if v == "del" then some none else (Hex.decode v).map some)
    pure (toNibbles kb, ov)
  | _ => none

def parseSub (w : String) : Option SubOp :=
  match splitOn w ':' with
  | ["p", k, v] => do
    let kb ← Hex.decode k
    let vb ← Hex.decode v
    pure (.put (toNibbles kb) vb)
  | ["d", k] => do
    let kb ← Hex.decode k
    pure (.del (toNibbles kb))
  | ["b", es] =>
    if es == "" then some (.batch [])
    else (splitOn es ',').mapM parseKV |>.map .batch
  | _ => none

def parseSubs (ws : List String) : Option (List SubOp) := ws.mapM parseSub

/-- the loads of a block on a partly loaded trie: before every event, the node it touches. -/
def loadsFor (lazy : Bool) (t : Node) (ops : List SubOp) : List (List Bytes) :=
  if lazy then (blockEvs t ops).map (fun e => [hash H e.2]) else []

/-- "up=<pending puts>/<pending deletions>" of the upper layer. -/
def upStr (l : Lay) : String :=
  s!"up={(l.up.filter (·.2.isSome)).length}/{(l.up.filter (·.2.isNone)).length}"

/-- one committed block: on a node `storeBlock` (Model/MptRc/Layered.lean `stepChain`), on a bare
trie / state module just AddMPTBatch + commit. -/
def blockStep (node : Bool) (c0 : Chain) (ops : List SubOp) (ld : List (List Bytes)) : Option Chain :=
  if node then stepChain H c0 (.addBlock ops ld none)
  else
    match computeLay H c0.mode c0.next c0.root c0.rc c0.lay ops ld with
    | none => none
    | some (t', m', l') =>
      some { c0 with root := t', rc := m', lay := l', next := c0.next + 1,
                     roots := (c0.next, rootHash H t') :: c0.roots, hist := (c0.next, t') :: c0.hist }

def gcStr : Option Nat → String
  | some g => s!"gc={g}"
  | none => "gc=-"

def step (d : DSt) (ws : List String) : DSt × String :=
  match ws with
  | ["case", k] => ({}, s!"case {k}")
  | ["mode", m] =>
    let mode := if m == "latest" then Mode.latest else if m == "gc" then Mode.gc else Mode.all
    ({ d with c := { d.c with mode := mode } }, "ok")
  | ["cfg", gcp, p2p, ssi, mtb] =>
    match gcp.toNat?, ssi.toNat?, mtb.toNat? with
    | some g, some si, some mt =>
      ({ d with c := { d.c with cfg := { gcp := g, p2p := p2p == "1", ssi := si }, mtb := mt }, node := true }, "ok")
    | _, _, _ => (d, "bad-op")
  | ["mtb", v] =>
    match v.toNat? with
    | some n =>
      -- the translated Policy.setMaxTraceableBlocks decides (committee-signed; MaxValidUntilBlockIncrement
      -- is 1 in the harness configuration); `policy_setter_is_newMtbOf`: an accepted value is `newMtbOf`
      let m' := match NeoModel.Generated.GoFuncs.policySetMaxTraceableBlocks (n : Int) (d.c.mtb : Int) 1 true 0 with
        | some (_ :: v :: _) => v.toNat
        | _ => d.c.mtb
      ({ d with c := { d.c with mtb := m' } }, s!"mtb={m'}")
    | none => (d, "bad-op")
  | ["hfcfg", hat, gen] =>
    match hat.toNat?, gen.toNat? with
    | some a, some g => ({ d with hfAt := some a, genMtb := g, cfgMtb := d.c.mtb }, "ok")
    | _, _ => (d, "bad-op")
  | ["mtbnow"] =>
    -- the node's MaxTraceableBlocks at the current height: the TRANSLATED Blockchain.GetMaxTraceableBlocks
    -- (config value before Echidna, the Policy's = Genesis value from then on; no Policy transactions in
    -- these cases); the model takes the new value only as a lowering (Props/C11 mtb_only_lowers_along_chain)
    let h := d.c.next - 1
    let v := (NeoModel.Generated.GoFuncs.bcGetMaxTraceableBlocks (h : Int)
      (match d.hfAt with | some a => decide (a ≤ h) | none => false) (d.genMtb : Int) (d.genMtb : Int) (d.cfgMtb : Int)).toNat
    let m' := newMtbOf d.c.mtb (some v)
    ({ d with c := { d.c with mtb := m' } }, s!"mtb={m'}")
  | "blk" :: idx :: subs =>
    match idx.toNat?, parseSubs subs with
    | some i, some ops =>
      let c0 := { d.c with next := i }
      match blockStep d.node c0 ops (loadsFor d.lazy c0.root ops) with
      | none => (d, "panic")
      | some c' =>
        let v := c'.lay.view
        ({ d with c := c', printed := v }, s!"r={Hex.encode (rootHash H c'.root)} {storeObs d.printed v}")
    | _, _ => (d, "bad-op")
  | "blkq" :: idx :: subs =>
    match idx.toNat?, parseSubs subs with
    | some i, some ops =>
      let c0 := { d.c with next := i }
      let t' := trieAfter c0.root ops
      let r := rootHash H t'
      match blockStep d.node c0 ops (loadsFor d.lazy c0.root ops) with
      | none => ({ d with c := { c0 with root := t', roots := (i, r) :: c0.roots, next := i + 1 } }, s!"r={Hex.encode r}")
      | some c' => ({ d with c := c' }, s!"r={Hex.encode r}")
    | _, _ => (d, "bad-op")
  | "drop" :: idx :: subs =>
    match idx.toNat?, parseSubs subs with
    | some i, some ops =>
      let c := d.c
      let r := rootHash H (trieAfter c.root ops)
      -- Model/MptRc.lean `dropBlock`: AddMPTBatch, then DropMPTBatch: the block's cache is discarded, the
      -- module's trie is re-opened from the committed root (lazily: loads from now on), fresh refcount map
      ({ d with c := { c with rc := [] }, lazy := true }, s!"r={Hex.encode r}")
    | _, _ => (d, "bad-op")
  | "dropold" :: idx :: subs =>
    match idx.toNat?, parseSubs subs with
    | some i, some ops =>
      let c := d.c
      let t' := trieAfter c.root ops
      let r := rootHash H t'
      -- self-test only (harness run with MPTRC_DROP_WITHOUT_RELOAD=1): `dropBlockNoReload`, the rule
      -- before DropMPTBatch existed — the trie object and the refcount map stay shared
      match computeLay H c.mode i c.root c.rc c.lay ops (loadsFor d.lazy c.root ops) with
      | none => ({ d with c := { c with root := t' } }, s!"r={Hex.encode r}")
      | some (_, m', _) => ({ d with c := { c with root := t', rc := m' } }, s!"r={Hex.encode r}")
    | _, _ => (d, "bad-op")
  | ["persist"] =>
    match stepChain H d.c (.persist true) with
    | some c' => ({ d with c := c' }, upStr d.c.lay)
    | none => (d, "bad-op")
  | ["rungc"] =>
    let before := d.c.gcs.length
    match stepChain H d.c .runGC with
    | some c' =>
      let g := if c'.gcs.length > before then c'.gcs.head? else none
      let v := c'.lay.view
      ({ d with c := c', printed := v }, s!"{gcStr g} {storeObs d.printed v}")
    | none => (d, "bad-op")
  | ["tickchk", mtb, old, new] =>
    match mtb.toNat?, old.toNat?, new.toNat? with
    | some mt, some o, some n => (d, gcStr (tryRunGC d.c.cfg mt o n))
    | _, _, _ => (d, "bad-op")
  | ["gc", g] =>
    match g.toNat? with
    | some gi =>
      let c' := { d.c with lay := d.c.lay.persist.gcLow gi, persisted := d.c.next - 1 }
      let v := c'.lay.view
      ({ d with c := c', printed := v }, storeObs d.printed v)
    | none => (d, "bad-op")
  | ["gcl", g] =>
    match g.toNat? with
    | some gi =>
      let c' := { d.c with lay := d.c.lay.gcLow gi }
      let v := c'.lay.view
      ({ d with c := c', printed := v }, s!"{upStr d.c.lay} {storeObs d.printed v}")
    | none => (d, "bad-op")
  | ["gcq", g] =>
    match g.toNat? with
    | some gi => ({ d with c := { d.c with lay := d.c.lay.persist.gcLow gi, persisted := d.c.next - 1 } }, "ok")
    | none => (d, "bad-op")
  | ["sync"] =>
    let v := d.c.lay.view
    ({ d with printed := v }, storeObs d.printed v)
  | ["reset"] =>
    match stepChain H d.c .restart with
    | some c' => ({ d with c := c', lazy := true }, "ok")
    | none => (d, "bad-op")
  | "restore" :: idx :: es :: rest =>
    match idx.toNat?, (if es == "-" then some [] else (splitOn es ',').mapM parseKV) with
    | some i, some m =>
      let sched : List Bool := match rest with
        | [sc] => sc.toList.map (· == '1')
        | _ => []
      let t := putBatch .empty (mapToBatch m)
      let l := restoreL H d.c.mode {} (positions t) sched
      let v := l.view
      ({ d with c := { d.c with root := t, rc := [], lay := l, roots := [(i, rootHash H t)], hist := [(i, t)], next := i + 1 },
                printed := v, lazy := true },
        s!"r={Hex.encode (rootHash H t)} {storeObs [] v}")
    | _, _ => (d, "bad-op")
  | "jump" :: idx :: es :: rest =>
    -- state sync + Module.JumpToState on the module of this case: CleanStorage, Billet restore of the
    -- trie with these contents (persist schedule `sched`), the restored trie becomes the live trie in
    -- the module's own mode
    match idx.toNat?, (if es == "-" then some [] else (splitOn es ',').mapM parseKV) with
    | some i, some m =>
      let sched : List Bool := match rest with
        | [sc] => sc.toList.map (· == '1')
        | _ => []
      let t := putBatch .empty (mapToBatch m)
      let l := jumpLay H d.c.mode d.c.lay t sched
      let v := l.view
      ({ d with c := { d.c with root := t, rc := [], lay := l, roots := [(i, rootHash H t)], hist := [(i, t)], next := i + 1 },
                printed := v, lazy := true },
        s!"r={Hex.encode (rootHash H t)} {upStr l} {storeObs d.printed v}")
    | _, _ => (d, "bad-op")
  | ["wild"] => (d, "ok")
  | ["get", h, k] =>
    match h.toNat?, Hex.decode k with
    | some hn, some kb =>
      match d.c.roots.lookup hn with
      | some root =>
        match lwalk d.c.lay (d.c.lay.low.length + d.c.lay.up.length + 2) root (toNibbles kb) with
        | .found v => (d, Hex.encode v)
        | _ => (d, "none")
      | none => (d, "no-such-height")
    | _, _ => (d, "bad-op")
  | _ => (d, "bad-op")

def main : IO Unit := Proto.run ({} : DSt) step
