/-
Driver for stream `mempool` (C08): one op per line, one observation per line.
  case <k>                                   -> case <k>          (resets everything)
  new <capacity>                             -> ok
  tx <i> <sys> <net> <size> <high 0|1> <oracle|-> <signers a,b,..> <conflicts i,j,..|->
                                             -> fpb=<net/size>    (defines transaction i; id = i)
  bal <primary> <secondary> <amount>         -> ok                (Feer stub balance)
  add <i>                                    -> ok|err:<class>|panic ; <state>
  remove <i>                                 -> ok ; <state>
  stale <feePerByte> <dropped i,j,..|->      -> ok rs=<resent ids in call order|-> ; <state>
  height <h>                                 -> ok                (Feer stub BlockHeight)
  threshold <h>                              -> ok                (SetResendThreshold)
  verify <i>                                 -> true|false|panic
<state> = txs=<ids most prioritized first|-> n=<count> has=<bits> hc=<bits> ver=<bits>
  (bits: one per defined transaction in definition order: ContainsKey, HasConflicts, Verify;
   the Verify probes run in that order and may fill the balance cache, exactly as in the pool)
-/
import NeoModel.Base.Proto
import NeoModel.Model.Mempool
open NeoModel NeoModel.Mempool

structure St where
  pool : Pool
  table : List Tx                 -- defined transactions, in definition order
  bals : List (Payer × Nat)
  fpb : Nat
  height : Nat

def St.init : St := { pool := Mempool.new 0, table := [], bals := [], fpb := 0, height := 0 }

def St.feer (s : St) : Feer :=
  { balance := fun p q => match s.bals.find? (fun e => e.1 == (p, q)) with
      | some e => e.2
      | none => 0
    feePerByte := s.fpb
    height := s.height }

def St.tx? (s : St) (i : Nat) : Option Tx := s.table.find? (fun t => t.id == i)

def parseList (w : String) : Option (List Nat) :=
  if w == "-" then some [] else (w.splitOn ",").mapM String.toNat?

def csv (l : List Nat) : String :=
  if l.isEmpty then "-" else ",".intercalate (l.map toString)

def bit (b : Bool) : String := if b then "1" else "0"

/-- the state observation; threads the pool through the Verify probes. -/
def dump (s : St) : St × String :=
  let mp := s.pool
  let has := String.join (s.table.map (fun t => bit (containsKey mp t.id)))
  let hc := String.join (s.table.map (fun t => bit (hasConflicts mp t)))
  let (mp', ver) := s.table.foldl (fun (acc : Pool × String) t =>
      let r := verify acc.1 t s.feer
      (r.1, acc.2 ++ bit r.2)) (mp, "")
  ({ s with pool := mp' },
   s!"txs={csv (mp.txs.map (·.id))} n={mp.txs.length} has={has} hc={hc} ver={ver}")

def errName : Err → String
  | .funds => "funds" | .conflict => "conflict" | .dup => "dup"
  | .oom => "oom" | .cattr => "cattr" | .oracle => "oracle"

def withState (s : St) (res : String) : St × String :=
  if s.pool.panicked then (s, "panic")
  else
    let (s', d) := dump s
    if s'.pool.panicked then (s', "panic") else (s', s!"{res} ; {d}")

def step (s : St) (ws : List String) : St × String :=
  match ws with
  | ["case", k] => (St.init, s!"case {k}")
  | ["new", c] =>
    match c.toNat? with
    | some c => ({ s with pool := Mempool.new c }, "ok")
    | none => (s, "bad-op")
  | ["tx", i, sys, net, size, high, orc, sg, cf] =>
    match i.toNat?, sys.toNat?, net.toNat?, size.toNat?, parseList sg, parseList cf with
    | some i, some sys, some net, some size, some sg, some cf =>
      let orc := if orc == "-" then none else orc.toNat?
      let t : Tx := { id := i, sysFee := sys, netFee := net, size := size, signers := sg,
                      high := high == "1", conflicts := cf, oracle := orc }
      ({ s with table := s.table ++ [t] }, s!"fpb={t.feePerByte}")
    | _, _, _, _, _, _ => (s, "bad-op")
  | ["bal", p, q, a] =>
    match p.toNat?, q.toNat?, a.toNat? with
    | some p, some q, some a =>
      ({ s with bals := ((p, q), a) :: s.bals.filter (fun e => e.1 != (p, q)) }, "ok")
    | _, _, _ => (s, "bad-op")
  | ["add", i] =>
    match i.toNat? >>= s.tx? with
    | some t =>
      let (mp, e) := add s.pool t s.feer
      withState { s with pool := mp } (match e with | none => "ok" | some e => "err:" ++ errName e)
    | none => (s, "bad-op")
  | ["remove", i] =>
    match i.toNat? with
    | some i => withState { s with pool := remove s.pool i } "ok"
    | none => (s, "bad-op")
  | ["stale", f, dr] =>
    match f.toNat?, parseList dr with
    | some f, some dr =>
      let s := { s with fpb := f }
      let mp := removeStale s.pool (fun t => !dr.contains t.id) s.feer
      withState { s with pool := mp } s!"ok rs={csv mp.resent}"
    | _, _ => (s, "bad-op")
  | ["height", h] =>
    match h.toNat? with
    | some h => ({ s with height := h }, "ok")
    | none => (s, "bad-op")
  | ["threshold", h] =>
    match h.toNat? with
    | some h => ({ s with pool := setResendThreshold s.pool h }, "ok")
    | none => (s, "bad-op")
  | ["verify", i] =>
    match i.toNat? >>= s.tx? with
    | some t =>
      let (mp, b) := verify s.pool t s.feer
      ({ s with pool := mp }, if mp.panicked then "panic" else if b then "true" else "false")
    | none => (s, "bad-op")
  | _ => (s, "bad-op")

def main : IO Unit := Proto.run St.init step
