/-
Driver for stream `mempool` (C08): one op per line, one observation per line.
  case <k>                                   -> case <k>          (resets everything)
  new <capacity>                             -> ok
  subs <0|1>                                 -> ok                (RunSubscriptions / StopSubscriptions)
  tx <i> <sys> <net> <size> <high 0|1> <oracle|-> <signers a,b,..> <conflicts i,j,..|->
                                             -> fpb=<net/size>    (defines transaction i; id = i)
  bal <primary> <secondary> <amount>         -> ok                (Feer stub balance)
  add <i> <data>                             -> ok|err:<class>|panic ; <state>      (data 0 = no data argument)
  remove <i>                                 -> ok ; <state>
  stale <feePerByte> <dropped i,j,..|->      -> ok rs=<resent id:data in call order|-> ; <state>
  height <h>                                 -> ok                (Feer stub BlockHeight)
  threshold <h>                              -> ok                (SetResendThreshold)
  verify <i>                                 -> true|false|panic
<state> = txs=<ids most prioritized first|-> n=<count> has=<bits> hc=<bits> gd=<TryGetData per defined tx: data or x>
          it=<id:data in list order (IterateVerifiedTransactions)> st=<item.blockStamp in list order>
          cf=<conflicts map: hash:ids;..> or=<oracleResp: id:hash,..> fees=<p.s:balance/feeSum,..> pol=<feePerByte>
          ev=<events sent since the last state: +id:data / -id:data> ver=<bits>
  (bits: one per defined transaction in definition order: ContainsKey, HasConflicts, Verify;
   the Verify probes run in that order, after everything else was read, and may fill the balance cache,
   exactly as in the pool)

Concurrent phase (real goroutines on the real pool; the harness records the order of the critical sections):
  conc-begin                                 -> ok                (starts the list of states S_0 = current)
  cadd <i> <data> | cremove <i> | cstale <feePerByte> <dropped>
                                             -> ok|err:<class>    (state-changing calls in lock order; S_k = after the k-th)
  at <lo> <hi> verify <i> <observed>         -> lin | nolin:<model results on S_lo..S_hi>
  at <lo> <hi> add <i> <data> <observed>     -> lin | nolin:..    (calls without a recorded critical section: there must be
                                                                    a state in their real-time window that gives the observed result)
  conc-end                                   -> <state> with fees entries of sum 0 dropped, rs=<all resends, sorted>,
                                                ev=<removed events in order>|<added events, sorted>
-/
import NeoModel.Base.Proto
import NeoModel.Model.Mempool
open NeoModel NeoModel.Mempool

structure St where
  pool : Pool
  table : List Tx                 -- defined transactions, in definition order
  bals : List (Payer × Nat)
  fpb : Nat
  height : Nat
  evSeen : Nat                    -- number of events already printed
  hist : Array Pool               -- concurrent phase: S_0 .. S_k
  crs : List (Nat × Nat)          -- concurrent phase: resends so far

def St.init : St :=
  { pool := Mempool.new 0, table := [], bals := [], fpb := 0, height := 0, evSeen := 0, hist := #[], crs := [] }

def St.feer (s : St) : Feer :=
  { balance := fun p q => match s.bals.find? (fun e => e.1 == (p, q)) with
      | some e => e.2
      | none => 0
    feePerByte := s.fpb
    height := s.height }

def St.tx? (s : St) (i : Nat) : Option Tx := s.table.find? (fun t => t.id == i)

def parseList (w : String) : Option (List Nat) :=
  if w == "-" then some [] else (w.splitOn ",").mapM String.toNat?

def csv (l : List Nat) : String :=
  if l.isEmpty then "-" else ",".intercalate (l.map toString)

def joinOr (sep : String) (l : List String) : String :=
  if l.isEmpty then "-" else sep.intercalate l

def bit (b : Bool) : String := if b then "1" else "0"

/-- insertion sort, duplicates dropped -/
def insSorted (lt : α → α → Bool) (x : α) : List α → List α
  | [] => [x]
  | y :: ys => if lt x y then x :: y :: ys else if lt y x then y :: insSorted lt x ys else y :: ys

def sortDedup (lt : α → α → Bool) (l : List α) : List α := l.foldl (fun acc x => insSorted lt x acc) []

/-- insertion sort keeping duplicates -/
def insAll (lt : α → α → Bool) (x : α) : List α → List α
  | [] => [x]
  | y :: ys => if lt y x then y :: insAll lt x ys else x :: y :: ys

def sortAll (lt : α → α → Bool) (l : List α) : List α := l.foldl (fun acc x => insAll lt x acc) []

def payerLt (a b : Payer) : Bool := a.1 < b.1 || (a.1 == b.1 && a.2 < b.2)

def evStr (e : Event) : String := s!"{if e.added then "+" else "-"}{e.id}:{e.data}"

def pairStr (p : Nat × Nat) : String := s!"{p.1}:{p.2}"

def pairLt (a b : Nat × Nat) : Bool := a.1 < b.1 || (a.1 == b.1 && a.2 < b.2)

/-- the part of the state that is read without changing anything -/
def deep (s : St) (mp : Pool) (dropZero : Bool) : String :=
  let gd := ",".intercalate (s.table.map (fun t => match tryGetData mp t.id with | some d => toString d | none => "x"))
  let gv := String.join (s.table.map (fun t => bit (tryGetValue mp t.id == some t)))
  let it := joinOr "," ((iterate mp).map pairStr)
  let st := csv (mp.txs.map (fun t => mp.stamp t.id))
  let ckeys := sortDedup (fun a b => decide (a < b)) (s.table.flatMap (·.conflicts))
  let cf := joinOr ";" (ckeys.filterMap (fun h => (mp.conflicts h).map (fun l => s!"{h}:{csv l}")))
  let okeys := sortDedup (fun a b => decide (a < b)) (s.table.filterMap (·.oracle))
  let orc := joinOr "," (okeys.filterMap (fun i => (mp.oracleResp i).map (fun h => s!"{i}:{h}")))
  let pkeys := sortDedup payerLt (s.table.map payerOf)
  let fees := joinOr "," (pkeys.filterMap (fun q => match mp.fees q with
    | some f => if dropZero && f.feeSum == 0 then none else some s!"{q.1}.{q.2}:{f.balance}/{f.feeSum}"
    | none => none))
  s!"gd={if s.table.isEmpty then "-" else gd} gv={if s.table.isEmpty then "-" else gv} it={it} st={st} cf={cf} or={orc} fees={fees} pol={mp.feePerByte}"

/-- the state observation; threads the pool through the Verify probes. -/
def dump (s : St) (conc : Bool) : St × String :=
  let mp := s.pool
  let has := String.join (s.table.map (fun t => bit (containsKey mp t.id)))
  let hc := String.join (s.table.map (fun t => bit (hasConflicts mp t)))
  let evs := mp.events.drop s.evSeen
  let ev :=
    if conc then
      joinOr "," ((evs.filter (fun e => !e.added)).map evStr) ++ "|" ++
      joinOr "," ((sortAll pairLt ((evs.filter (·.added)).map (fun e => (e.id, e.data)))).map pairStr)
    else joinOr "," (evs.map evStr)
  let (mp', ver) := s.table.foldl (fun (acc : Pool × String) t =>
      let r := verify acc.1 t s.feer
      (r.1, acc.2 ++ bit r.2)) (mp, "")
  ({ s with pool := mp', evSeen := mp.events.length },
   s!"txs={csv (mp.txs.map (·.id))} n={mp.txs.length} has={has} hc={hc} {deep s mp conc} ev={ev} ver={ver}")

def errName : Err → String
  | .funds => "funds" | .conflict => "conflict" | .dup => "dup"
  | .oom => "oom" | .cattr => "cattr" | .oracle => "oracle"

def resName : Option Err → String
  | none => "ok"
  | some e => "err:" ++ errName e

def withState (s : St) (res : String) : St × String :=
  if s.pool.panicked then (s, "panic")
  else
    let (s', d) := dump s false
    if s'.pool.panicked then (s', "panic") else (s', s!"{res} ; {d}")

/-- a state-changing call of the concurrent phase: apply, remember the state -/
def concStep (s : St) (mp : Pool) (res : String) : St × String :=
  ({ s with pool := mp, hist := s.hist.push mp }, if mp.panicked then "panic" else res)

def window (s : St) (lo hi : Nat) : List Pool :=
  (List.range (hi + 1 - lo)).filterMap (fun k => s.hist[lo + k]?)

def step (s : St) (ws : List String) : St × String :=
  match ws with
  | ["case", k] => (St.init, s!"case {k}")
  | ["new", c] =>
    match c.toNat? with
    | some c => ({ s with pool := Mempool.new c, evSeen := 0 }, "ok")
    | none => (s, "bad-op")
  | ["subs", b] => ({ s with pool := setSubs s.pool (b == "1") }, "ok")
  | ["tx", i, sys, net, size, high, orc, sg, cf] =>
    match i.toNat?, sys.toNat?, net.toNat?, size.toNat?, parseList sg, parseList cf with
    | some i, some sys, some net, some size, some sg, some cf =>
      let orc := if orc == "-" then none else orc.toNat?
      let t : Tx := { id := i, sysFee := sys, netFee := net, size := size, signers := sg,
                      high := high == "1", conflicts := cf, oracle := orc }
      ({ s with table := s.table ++ [t] }, s!"fpb={t.feePerByte}")
    | _, _, _, _, _, _ => (s, "bad-op")
  | ["bal", p, q, a] =>
    match p.toNat?, q.toNat?, a.toNat? with
    | some p, some q, some a =>
      ({ s with bals := ((p, q), a) :: s.bals.filter (fun e => e.1 != (p, q)) }, "ok")
    | _, _, _ => (s, "bad-op")
  | ["add", i, d] =>
    match i.toNat? >>= s.tx?, d.toNat? with
    | some t, some d =>
      let (mp, e) := add s.pool t s.feer d
      withState { s with pool := mp } (resName e)
    | _, _ => (s, "bad-op")
  | ["remove", i] =>
    match i.toNat? with
    | some i => withState { s with pool := remove s.pool i } "ok"
    | none => (s, "bad-op")
  | ["stale", f, dr] =>
    match f.toNat?, parseList dr with
    | some f, some dr =>
      let s := { s with fpb := f }
      let mp := removeStale s.pool (fun t => !dr.contains t.id) s.feer
      withState { s with pool := mp } s!"ok rs={joinOr "," (mp.resent.map pairStr)}"
    | _, _ => (s, "bad-op")
  | ["height", h] =>
    match h.toNat? with
    | some h => ({ s with height := h }, "ok")
    | none => (s, "bad-op")
  | ["threshold", h] =>
    match h.toNat? with
    | some h => ({ s with pool := setResendThreshold s.pool h }, "ok")
    | none => (s, "bad-op")
  | ["verify", i] =>
    match i.toNat? >>= s.tx? with
    | some t =>
      let (mp, b) := verify s.pool t s.feer
      ({ s with pool := mp }, if mp.panicked then "panic" else if b then "true" else "false")
    | none => (s, "bad-op")
  | ["conc-begin"] => ({ s with hist := #[s.pool], crs := [] }, "ok")
  | ["cadd", i, d] =>
    match i.toNat? >>= s.tx?, d.toNat? with
    | some t, some d =>
      let (mp, e) := add s.pool t s.feer d
      concStep s mp (resName e)
    | _, _ => (s, "bad-op")
  | ["cremove", i] =>
    match i.toNat? with
    | some i => concStep s (remove s.pool i) "ok"
    | none => (s, "bad-op")
  | ["cstale", f, dr] =>
    match f.toNat?, parseList dr with
    | some f, some dr =>
      let s := { s with fpb := f }
      let mp := removeStale s.pool (fun t => !dr.contains t.id) s.feer
      concStep { s with crs := s.crs ++ mp.resent } mp "ok"
    | _, _ => (s, "bad-op")
  | ["at", lo, hi, "verify", i, obs] =>
    match lo.toNat?, hi.toNat?, i.toNat? >>= s.tx? with
    | some lo, some hi, some t =>
      let rs := (window s lo hi).map (fun mp => let r := verify mp t s.feer
                                                if r.1.panicked then "panic" else if r.2 then "true" else "false")
      (s, if rs.contains obs then "lin" else "nolin:" ++ ",".intercalate rs)
    | _, _, _ => (s, "bad-op")
  | ["at", lo, hi, "add", i, d, obs] =>
    match lo.toNat?, hi.toNat?, i.toNat? >>= s.tx?, d.toNat? with
    | some lo, some hi, some t, some d =>
      let rs := (window s lo hi).map (fun mp => let r := add mp t s.feer d
                                                if r.1.panicked then "panic" else resName r.2)
      (s, if rs.contains obs then "lin" else "nolin:" ++ ",".intercalate rs)
    | _, _, _, _ => (s, "bad-op")
  | ["conc-end"] =>
    if s.pool.panicked then (s, "panic")
    else
      let (s', d) := dump s true
      let rs := joinOr "," ((sortAll pairLt s.crs).map pairStr)
      ({ s' with hist := #[], crs := [] }, if s'.pool.panicked then "panic" else s!"rs={rs} ; {d}")
  | _ => (s, "bad-op")

def main : IO Unit := Proto.run St.init step
