-- Root of the `NeoModel` library: everything that `lake build` must check.
import NeoModel.Base.Hex
import NeoModel.Base.Proto
