#!/usr/bin/env python3
"""tools/save_seed.py <seed-id> <property> <mutdir> <needs> <ran> <detected-by>  -> /verif/seeded/<seed-id>/"""
import sys, os, shutil, json, glob
sid, prop, mdir, needs, ran, det = sys.argv[1:7]
d = os.path.join("/verif/seeded", sid)
os.makedirs(d, exist_ok=True)
for f in glob.glob(os.path.join(mdir, "*")):
    if os.path.isfile(f):
        shutil.copy(f, d)
json.dump({"property": prop, "needs_to_manifest": needs, "what_i_ran": ran, "detected_by": det}, open(os.path.join(d, "meta.json"), "w"), indent=1)
print("saved", d, os.listdir(d))
