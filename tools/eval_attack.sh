#!/bin/bash
# tools/eval_attack.sh <prop> <seed-id> <demo_pkg_dir[,dir2]> <run-regex> <pkgs-for-existing-tests...>
# Confirms an attacker's delivery in /tmp/atk/<prop>/out against the CURRENT /repo HEAD in a fresh scratch
# worktree (build, demo fails with / passes without, existing tests of the given packages pass), runs the
# property's quick check against it through an overlay, and stores it as seeded/<seed-id>/.
P=$1; S=$2; DP=$3; RE=$4; shift 4; PKGS="$@"
export GOFLAGS=-mod=mod GOPROXY=off
M=${ATK_ROOT:-/tmp/atk}/$P/out; WT=/tmp/evalwt_$S
git -C /repo worktree remove --force $WT 2>/dev/null; git -C /repo worktree add -q --detach $WT HEAD || exit 2
cd $WT
IFS=, read -ra DIRS <<< "$DP"
cpdemo() { for f in $M/*_test.go; do for d in "${DIRS[@]}"; do pk=$(grep -m1 '^package ' $f | awk '{print $2}'); dn=$(basename $d); if [ ${#DIRS[@]} = 1 ] || [ "${pk%_test}" = "$dn" ] || [ "$pk" = "$dn" ]; then cp $f $d/; fi; done; done; }
TD=$(for d in "${DIRS[@]}"; do echo -n "./$d/ "; done)
cpdemo
demo_clean=$(go test -count=1 -run "$RE" $TD 2>&1 | grep -v WARNING | grep -E "^(ok|FAIL|---|panic)" | tr '\n' ' ' | cut -c1-300)
git apply $M/patch.diff || { echo "PATCH DOES NOT APPLY to current HEAD"; cd /; git -C /repo worktree remove --force $WT; exit 1; }
build=$(go build ./... 2>&1 | grep -v WARNING | tail -3)
demo_mut=$(go test -count=1 -run "$RE" $TD 2>&1 | grep -v WARNING | grep -E "^(ok|FAIL|--- FAIL|panic)" | tr '\n' ' ' | cut -c1-300)
for d in "${DIRS[@]}"; do for f in $M/*_test.go; do rm -f $d/$(basename $f); done; done
existing=$(go test -count=1 -p 4 $PKGS 2>&1 | grep -v WARNING | grep -E "^(FAIL|--- FAIL|panic)" | head -5 | tr '\n' ' ')
cd /verif; git -C /repo worktree remove --force $WT
echo "build: [$build]"; echo "demo without change: $demo_clean"; echo "demo with change: $demo_mut"; echo "existing tests failing: [$existing]"
tools/overlay.sh $M/patch.diff /tmp/ov_$S >/dev/null 2>&1
out=$(VERIF_GO_OVERLAY=/tmp/ov_$S/overlay.json ./check $P --tier quick 2>&1 | grep -v WARNING)
echo "$out" | grep "^VIOLATION" | head -3; echo "$out" | tail -1
mkdir -p seeded/$S; cp $M/patch.diff $M/*_test.go $M/README.md seeded/$S/ 2>/dev/null; cp $M/existing_tests.log seeded/$S/ 2>/dev/null
v=$(echo "$out" | grep -c "^VIOLATION"); nf=$(echo "$out" | grep "^VIOLATION" | grep -c no-failing-input-found)
{ echo "seed $S property $P (overlay, quick): $v VIOLATION line(s), $nf of them no-failing-input-found"; echo "$out" | grep "^VIOLATION" | head -3; echo "$out" | tail -1; } > seeded/$S/result.txt
rm -rf /tmp/ov_$S; rm -f .work/bin/*.overlay.*
