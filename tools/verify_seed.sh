#!/bin/bash
# tools/verify_seed.sh <worktree> <mutdir> <demo_pkg_dir> <go test -run regex> <pkgs to run existing tests...>
# Confirms in a scratch worktree: patch applies+builds, existing tests of the given packages pass with it,
# the demo fails with it and passes without it. Prints a summary; leaves the worktree clean.
WT=$1; M=$2; DP=$3; RE=$4; shift 4; PKGS="$@"
export GOFLAGS=-mod=mod GOPROXY=off
cd "$WT" || exit 2
git checkout -q -- . ; git clean -fdq -e out
cp $M/*_test.go "$DP/" 2>/dev/null
demo_clean=$(go test -count=1 -run "$RE" ./$DP/ 2>&1 | grep -v WARNING | tail -1)
git apply "$M/patch.diff" || { echo "PATCH DOES NOT APPLY"; exit 1; }
build=$(go build ./... 2>&1 | grep -v WARNING | tail -3)
demo_mut=$(go test -count=1 -run "$RE" ./$DP/ 2>&1 | grep -v WARNING | tail -1)
for f in $M/*_test.go; do rm -f "$DP/$(basename $f)"; done
existing=$(go test -count=1 $PKGS 2>&1 | grep -v WARNING | grep -v "^ok\|no test files" | grep -v "TestUT\|neo-vm tests\|Error Trace\|Error:\|Test:\|Messages\|json_test.go\|expected: true\|actual  : false\|^$" | head -10)
git checkout -q -- . ; git clean -fdq -e out
echo "build: [${build}]"; echo "demo without change: $demo_clean"; echo "demo with change: $demo_mut"; echo "existing tests (non-ok lines): [${existing}]"
