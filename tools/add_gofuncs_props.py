#!/usr/bin/env python3
"""Adds the translator-tie theorems of lean/NeoModel/Proofs/GoFuncs/Cxx.lean to props/Cxx.json (idempotent)."""
import json, re, os
R = "/verif"
ST = {
 "toShortForm_sound": "every opcode the compiler's toShortForm shortens is, in the regenerated opcode table, an X_L opcode with a 4-byte operand whose partner X is the opcode one below with a 1-byte operand",
 "toShortForm_complete": "every X_L / X pair of the opcode table with a 4-byte / 1-byte offset is shortened by the translated toShortForm",
 "toShortForm_is_pred": "the short form of a jump opcode is the opcode minus one, for every opcode",
 "negateJmp_involutive": "the translated negateJmp is an involution wherever it is defined",
 "readVarUint_eq": "BinReader.ReadVarUint translated from binaryReader.go returns the value the model's readVarUint decodes, whenever enough bytes are present (no minimality check)",
 "getVarIntSize_eq": "io.getVarIntSize, translated from size.go on this run, equals the model's varUintSize for every value below 2^32",
 "txFeePerByte_eq": "Transaction.FeePerByte, translated from source on this run, is the model's NetworkFee/Size",
 "mempoolItemCompare_eq": "mempool item.Compare, translated from mem_pool.go on this run, equals the model's compare for every pair of transactions",
 "queueIndexToPosition_eq": "bqueue indexToPosition, translated from queue.go on this run, is the model's index % cacheSize",
 "dbftF_eq": "dbft Context.F translated from the library source equals the model's f for every n >= 1",
 "dbftM_eq": "dbft Context.M translated from the library source equals the model's M for every n >= 1",
 "dbftPrimaryIndex_eq": "dbft GetPrimaryIndex translated from the library source equals the model's primary for every height, view and validator count",
 "defaultHonestNodeCount_eq_M": "smartcontract.GetDefaultHonestNodeCount (the m of the validators' multisignature) translated from source equals dBFT's commit quorum M",
 "translated_quorums_intersect": "on the translated F/M arithmetic two commit quorums intersect in more than f validators, for every n >= 1",
 "majorityHonestNodeCount_strict": "the translated committee majority threshold is a strict majority and at most n",
 "verifyHeader_eq": "Blockchain.verifyHeader translated from blockchain.go on this run makes the decisions of the model's verifyHeader in the same order with the same first failing check",
 "verifyAndPoolTx_ok_iff": "the translated verifyAndPoolTx answers ok exactly when all ten admission conjuncts hold",
 "verifyAndPoolTx_is_first_failing": "the translated verifyAndPoolTx returns the error class of the first failing check of the written order (17 ordered checks)",
 "tryRunGC_within_window": "whenever the translated Blockchain.tryRunGC calls stateRoot.GC(t): gcp < t, t + MaxTraceableBlocks <= persisted height, gcp | t (with and without P2PStateExchangeExtensions, uint32 wrap included)",
 "policySetExecFeeFactor_spec": "exact guard of Policy.setExecFeeFactor translated from policy.go (range 1..100, 1..1000000 from Faun, committee witness)",
 "policySetStoragePrice_spec": "exact guard of Policy.setStoragePrice translated from source",
 "policySetFeePerByte_spec": "exact guard of Policy.setFeePerByte translated from source",
 "policySetMillisecondsPerBlock_spec": "exact guard of Policy.setMillisecondsPerBlock translated from source",
 "policySetMaxVUBIncrement_spec": "exact guard of Policy.setMaxValidUntilBlockIncrement translated from source (range, below MaxTraceableBlocks, committee)",
 "policySetMaxTraceableBlocks_spec": "exact guard of Policy.setMaxTraceableBlocks translated from source (range, only lowered, above MaxValidUntilBlockIncrement, committee)",
 "policySetAttributeFee_spec": "exact guard of Policy.setAttributeFee translated from source (valid type, NotaryAssisted only in V1, cap, committee)",
}
for f in sorted(os.listdir(R + "/lean/NeoModel/Proofs/GoFuncs")):
    pid = f[:-5]
    if not re.fullmatch(r"C\d\d", pid):
        continue  # engineers' own tie files are registered by them
    src = open(R + "/lean/NeoModel/Proofs/GoFuncs/" + f).read()
    src = re.sub(r"/-.*?-/", "", src, flags=re.S)
    names = re.findall(r"^theorem\s+([\w']+)", src, flags=re.M)
    names = [n for n in names if n in ST]
    p = R + "/props/%s.json" % pid
    c = json.load(open(p))
    mod = "NeoModel.Proofs.GoFuncs." + pid
    if mod not in c["lean_modules"]:
        c["lean_modules"].append(mod)
    for n in names:
        q = "NeoModel.GoFuncsTie." + n
        if q not in c["theorems"]:
            c["theorems"].append(q)
        c.setdefault("statements", {})[q] = ST[n]
    tb = c.setdefault("trusted_base", [])
    t = "the Go->Lean function translator harness/cmd/extract/gofuncs.go (supported subset and integer semantics in its header; int/int64 unbounded)"
    if t not in tb:
        tb.append(t)
    json.dump(c, open(p, "w"), indent=1)
    print(pid, len(names), "translator-tie theorems")
