#!/usr/bin/env python3-vt
"""validates MANIFEST.json and every evidence/<id>.json against the schemas in /root/.vp."""
import json, jsonschema, os, sys
R = "/verif"
ok = True
m = json.load(open(R + "/MANIFEST.json"))
jsonschema.validate(m, json.load(open("/root/.vp/MANIFEST.schema.json")))
es = json.load(open("/root/.vp/EVIDENCE.schema.json"))
for c in m["checks"]:
    p = c["evidence_file"]
    if not os.path.exists(p):
        print("MISSING evidence", p); ok = False; continue
    e = json.load(open(p))
    try:
        jsonschema.validate(e, es)
    except jsonschema.ValidationError as ex:
        print("INVALID", p, ex.message[:200]); ok = False; continue
    cov = e["coverage"]
    print(c["property_id"], e["tier"], "obligations %s/%s" % (cov.get("discharged"), cov.get("obligations")), "evals", cov.get("evaluations"), "distinct", cov.get("distinct_nontrivial"), "viol", e.get("violations"), "wall", e["wall_s"])
    if cov.get("discharged") != cov.get("obligations"):
        print("  !! discharged != obligations"); ok = False
ids = {c["property_id"] for c in m["checks"]} | {n["property_id"] for n in m.get("not_applicable", [])}
missing = [("C%02d" % i) for i in range(1, 21) if ("C%02d" % i) not in ids]
if missing:
    print("properties neither claimed nor not_applicable:", missing); ok = False
sys.exit(0 if ok else 1)
