#!/usr/bin/env python3
"""tools/sweep_seeds.py [-j N] [--tier quick|thorough] [seed-id ...]
Runs the check of each seeded change's property against the change WITHOUT touching /repo (go build -overlay,
tools/overlay.sh), one lane per property, N lanes in parallel; writes seeded/<id>/result.txt.
The extractor's go/ast tables still read /repo's unpatched source in this mode (its linked-data tables see the
change), so a seed visible only through a regenerated source table must be confirmed with tools/run_seeds.sh.
Evidence files are rewritten by these runs: restore them afterwards (git checkout evidence, or re-run the checks)."""
import sys, os, json, subprocess, hashlib, shutil
from concurrent.futures import ThreadPoolExecutor
os.chdir("/verif")
a = sys.argv[1:]; J = 5; tier = "quick"
while a and a[0].startswith("-"):
    if a[0] == "-j": J = int(a[1]); a = a[2:]
    elif a[0] == "--tier": tier = a[1]; a = a[2:]
ids = a or sorted(os.listdir("seeded"))
lanes = {}
for s in ids:
    lanes.setdefault(json.load(open("seeded/%s/meta.json" % s))["property"], []).append(s)
def lane(p):
    for s in lanes[p]:
        d = "seeded/" + s; ov = "/tmp/sweep/" + s
        pf = d + "/patch.current.diff" if os.path.exists(d + "/patch.current.diff") else d + "/patch.diff"  # refreshed against the current source
        r = subprocess.run(["tools/overlay.sh", pf, ov], capture_output=True, text=True)
        if r.returncode != 0 or not os.path.exists(ov + "/overlay.json"):
            open(d + "/result.txt", "w").write("seed %s: overlay failed\n%s\n" % (s, r.stderr[-500:])); print(s, "overlay failed", flush=True); continue
        env = dict(os.environ, VERIF_GO_OVERLAY=ov + "/overlay.json")
        r = subprocess.run(["./check", p, "--tier", tier], capture_output=True, text=True, env=env, timeout=6000)
        out = [l for l in (r.stdout + r.stderr).split("\n") if "WARNING" not in l and l.strip()]
        v = [l for l in out if l.startswith("VIOLATION")]
        nf = [l for l in v if "no-failing-input-found" in l]
        head = "seed %s property %s (overlay, %s): %d VIOLATION line(s), %d of them no-failing-input-found" % (s, p, tier, len(v), len(nf))
        open(d + "/result.txt", "w").write("\n".join([head] + v[:3] + out[-1:]) + "\n")
        print(head, flush=True)
        shutil.rmtree(ov, ignore_errors=True)
        h = hashlib.sha1((ov + "/overlay.json").encode()).hexdigest()[:8]
        for f in os.listdir(".work/bin"):
            if f.endswith(".overlay." + h): os.remove(".work/bin/" + f)
with ThreadPoolExecutor(J) as ex:
    list(ex.map(lane, sorted(lanes)))
