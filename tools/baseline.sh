#!/bin/bash
# Runs the repository's baseline test suite with the verif guard OFF and compares the set of passing
# tests with /root/.vp/BASELINE.json (stable_pass). Usage: tools/baseline.sh [repo-dir] [out-dir]
REPO=${1:-/repo}; OUT=${2:-/tmp/baseline.$$}; mkdir -p "$OUT"
export GOFLAGS=-mod=mod GOPROXY=off
: > "$OUT/test.json"
for m in . ./internal/contracts/oracle_contract ./pkg/interop; do
  (cd "$REPO/$m" && go test -json -vet=off -count=1 -timeout 25m ./... 2>/dev/null) >> "$OUT/test.json"
done
python3 - "$OUT/test.json" <<'PY'
import json,sys
passed=set(); failed=set()
for l in open(sys.argv[1], errors='replace'):
    try: e=json.loads(l)
    except Exception: continue
    if e.get('Test') and e.get('Action') in ('pass','fail'):
        (passed if e['Action']=='pass' else failed).add(e['Package']+'::'+e['Test'])
base=set(json.load(open('/root/.vp/BASELINE.json'))['stable_pass'])
missing=sorted(base-passed)
print("passed",len(passed),"failed",len(failed),"baseline",len(base),"baseline tests not passing now:",len(missing))
for m in missing[:50]: print("  MISSING",m, "(FAILED)" if m in failed else "(not run)")
PY
