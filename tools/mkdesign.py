#!/usr/bin/env python3
"""Regenerates the generated part of DESIGN.md (between the GENERATED markers) from
props/*.json, known-findings.txt and seeded/*/meta.json."""
import json, os, re, glob
R = "/verif"
out = []
out.append("### 9.3 Per-property summary (generated from props/*.json)\n")
out.append("| id | obligations (audited theorems) | streams (harness → driver) | main theorems |")
out.append("|---|---|---|---|")
for i in range(1, 21):
    pid = "C%02d" % i
    p = os.path.join(R, "props", pid + ".json")
    if not os.path.exists(p):
        out.append("| %s | – | – | not built |" % pid); continue
    c = json.load(open(p))
    th = c.get("theorems", [])
    names = [t.split(".")[-1] for t in th]
    streams = ", ".join("%s→%s" % (s["harness"], s.get("driver", "(oracle only)")) for s in c.get("streams", []))
    out.append("| %s | %d | %s | %s |" % (pid, len(th), streams, ", ".join("`%s`" % n for n in names[:14]) + (" …" if len(names) > 14 else "")))
out.append("")
out.append("What is `_partial`, what is only tied and what is only searched is stated per property in `props/<id>.json` (`level_note`, `modelled_not_verified`, `assumptions`) and copied into each evidence file; the texts follow.\n")
for i in range(1, 21):
    pid = "C%02d" % i
    p = os.path.join(R, "props", pid + ".json")
    if not os.path.exists(p):
        continue
    c = json.load(open(p))
    out.append("**%s.** %s" % (pid, (c.get("level_text") or "").strip()))
    if c.get("level_note"):
        out.append("\n*Trusted / partial:* " + c["level_note"].strip())
    mnv = c.get("modelled_not_verified") or []
    if mnv:
        out.append("\n*Modelled or tied, not verified:* " + "; ".join(str(x).strip() for x in mnv[:12]))
    asm = c.get("assumptions") or []
    if asm:
        out.append("\n*Assumptions:* " + "; ".join(str(x).strip() for x in asm[:10]))
    out.append("")

known, fixed = [], []
for l in open(os.path.join(R, "known-findings.txt")):
    m = re.match(r"known: property=(\S+) key=(\S+) (.*)", l.strip())
    if m: known.append(m.groups())
    m = re.match(r"fixed: property=(\S+) (\S+) (.*)", l.strip())
    if m: fixed.append(m.groups())
out.append("### 9.4 Defects repaired in /repo (`fix:` commits; `fixed:` lines of known-findings.txt)\n")
out.append("| property | commit | what failed |")
out.append("|---|---|---|")
for p, c, w in sorted(fixed):
    out.append("| %s | `%s` | %s |" % (p, c, w.replace("|", "\\|")[:400]))
out.append("")
out.append("### 9.5 Defects recorded, not repaired (`known:` lines; the check prints KNOWN-FINDING and exits 0)\n")
out.append("| property | key | what fails |")
out.append("|---|---|---|")
for p, k, w in sorted(known):
    out.append("| %s | `%s` | %s |" % (p, k, w.replace("|", "\\|")[:300]))
out.append("")
out.append("### 9.6 Seeded changes (`seeded/<id>/`: patch.diff, demonstration, meta.json) and which check reports them\n")
out.append("Each change was written by a fresh sub-agent that saw only the property text and a scratch worktree; it compiles, passes the repository's tests, and its demonstration fails with it and passes without (re-confirmed by `tools/verify_seed.sh`).\n")
out.append("The last column is the outcome of the latest `tools/sweep_seeds.py` run of the property's own quick check against the change (`seeded/<id>/result.txt`); the column before it is the history (what reported the change when it was first tried).\n")
out.append("| seed | property | needs, in order to manifest | reported by (history) | latest sweep, own check |")
out.append("|---|---|---|---|---|")
nrep = ntot = 0
for d in sorted(glob.glob(os.path.join(R, "seeded", "*"))):
    mp = os.path.join(d, "meta.json")
    if not os.path.exists(mp): continue
    m = json.load(open(mp))
    last = "not run"
    rp = os.path.join(d, "result.txt")
    if os.path.exists(rp):
        l = open(rp).readline()
        mm = re.search(r"(\d+) VIOLATION line\(s\), (\d+) of them no-failing-input-found", l)
        if mm:
            v, nf = int(mm.group(1)), int(mm.group(2))
            last = "not reported" if v == 0 else ("VIOLATION with failing input" if v > nf else "VIOLATION no-failing-input-found")
            ntot += 1; nrep += (v > 0)
    if m.get("status_now"): last += " (" + m["status_now"] + ")"
    out.append("| %s | %s | %s | %s | %s |" % (os.path.basename(d), m["property"], m["needs_to_manifest"].replace("|", "\\|"), m["detected_by"].replace("|", "\\|"), last.replace("|", "\\|")))
out.append("")
out.append("Latest sweep: %d of %d seeded changes are reported by the quick check of their own property." % (nrep, ntot))
out.append("")
gen = "\n".join(out)
p = os.path.join(R, "DESIGN.md")
s = open(p).read()
B, E = "<!-- GENERATED:BEGIN -->", "<!-- GENERATED:END -->"
if B in s:
    s = s[:s.index(B)] + B + "\n" + gen + "\n" + E + s[s.index(E) + len(E):]
else:
    s = s.rstrip("\n") + "\n\n" + B + "\n" + gen + "\n" + E + "\n"
open(p, "w").write(s)
print("DESIGN.md generated part: %d fixed, %d known, %d lines" % (len(fixed), len(known), len(out)))
