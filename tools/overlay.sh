#!/bin/bash
# tools/overlay.sh <patch.diff> <dir>  : applies a patch to a scratch COPY of the touched files and
# writes <dir>/overlay.json for `VERIF_GO_OVERLAY=<dir>/overlay.json ./check Cxx` (go build -overlay),
# so a candidate change of /repo can be tested without modifying /repo.
set -e
P=$(readlink -f "$1"); D=$2; rm -rf "$D"; mkdir -p "$D/tree"
files=$(grep '^+++ b/' "$P" | sed 's|^+++ b/||')
for f in $files; do mkdir -p "$D/tree/$(dirname $f)"; [ -f /repo/$f ] && cp /repo/$f "$D/tree/$f"; done
(cd "$D/tree" && git init -q . 2>/dev/null; git apply --unsafe-paths "$P" 2>/dev/null || patch -p1 -s < "$P")
{ echo '{"Replace":{'; first=1; for f in $files; do [ $first = 1 ] || echo ','; first=0; printf '"/repo/%s":"%s/tree/%s"' "$f" "$(readlink -f $D)" "$f"; done; echo '}}'; } > "$D/overlay.json"
cat "$D/overlay.json"
