#!/bin/bash
# tools/run_seeds.sh [seed-id ...]: applies each seeded change to /repo ITSELF (git apply), runs the quick
# check of its property, records the outcome in seeded/<id>/result.txt and undoes the change
# (git checkout -- .). Run only when nothing else uses /repo.
cd /verif
ids="$@"; [ -z "$ids" ] && ids=$(ls seeded)
for s in $ids; do
  d=seeded/$s; p=$(python3 -c "import json;print(json.load(open('$d/meta.json'))['property'])")
  git -C /repo checkout -q -- . ; 
  if ! git -C /repo apply "$PWD/$d/patch.diff"; then echo "$s: PATCH DOES NOT APPLY" | tee $d/result.txt; continue; fi
  out=$(timeout 3000 ./check $p --tier quick 2>&1 | grep -v WARNING)
  git -C /repo checkout -q -- .
  v=$(echo "$out" | grep -c "^VIOLATION")
  nf=$(echo "$out" | grep "^VIOLATION" | grep -c "no-failing-input-found")
  { echo "seed $s property $p: $v VIOLATION line(s), $nf of them no-failing-input-found"; echo "$out" | grep "^VIOLATION" | head -3; echo "$out" | tail -1; } | tee $d/result.txt
done
git -C /repo status --short | head -3
