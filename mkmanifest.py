#!/usr/bin/env python3
"""Regenerates MANIFEST.json from props/*.json (run after editing a props file)."""
import json, os, subprocess
ROOT = os.path.dirname(os.path.abspath(__file__))
ALL = ["C%02d" % i for i in range(1, 21)]
checks, na = [], []
for pid in ALL:
    p = os.path.join(ROOT, "props", pid + ".json")
    if not os.path.exists(p):
        na.append({"property_id": pid, "reason": "check not built yet in this framework (planned, see DESIGN.md §5); not claimed"})
        continue
    c = json.load(open(p))
    if c.get("not_applicable"):
        na.append({"property_id": pid, "reason": c["not_applicable"]})
        continue
    checks.append({
        "property_id": pid,
        "quick_cmd": "./check %s --tier quick" % pid,
        "thorough_cmd": "./check %s --tier thorough" % pid,
        "evidence_file": "/verif/evidence/%s.json" % pid,
        "replay_cmd_template": "./check %s --replay {path}" % pid,
        "engine": "lean4-proof+correspondence",
        "level_claimed": {"category": "proof", "text": c.get("level_text", ""), "design_ref": "DESIGN.md §5 " + pid},
        "level_note": c.get("level_note", ""),
        "technique": c.get("technique", "Lean 4 theorems over an executable model; model tied to /repo by differential correspondence (Go harness vs Lean driver) and regenerated fact tables; direct oracle on the real code for failing-input search"),
    })
hooks = subprocess.run(["git", "-C", "/repo", "log", "--format=%H", "--grep=^verif:"], capture_output=True, text=True).stdout.split()
m = {
    "version": 1,
    "setup_cmd": "./check --setup",
    "hooks": {
        "guard": "verif",
        "enable": "go build -tags verif (the harness binaries under /verif/harness are built with -tags verif against /repo via a replace directive)",
        "baseline_off_cmd": "cd /repo && for m in . ./internal/contracts/oracle_contract ./pkg/interop; do (cd $m && GOFLAGS=-mod=mod go test -json -vet=off -count=1 -timeout 25m ./...); done",
        "source_commits": list(reversed(hooks)),
        "add_only": True,
    },
    "engines": [
        {"name": "lean4-proof+correspondence", "path": "/verif/check", "serves_properties": [c["property_id"] for c in checks],
         "kind_free_text": "Lean 4 (4.33.0) theorems about hand-written executable models (lean/NeoModel), audited with #print axioms; models tied to /repo on every run by Go harnesses (harness/cmd/*, built with -tags verif from the working tree) whose operation streams are replayed by native Lean drivers and diffed, plus fact tables regenerated from source by harness/cmd/extract; each harness also carries the property's direct oracle on the real code to search for failing inputs"}
    ],
    "checks": checks,
    "not_applicable": na,
    "notes": "props/<id>.json configures each check (theorem list, streams). known-findings.txt lists known:/fixed: entries. DESIGN.md explains the construction.",
}
json.dump(m, open(os.path.join(ROOT, "MANIFEST.json"), "w"), indent=1)
print("checks:", [c["property_id"] for c in checks], "not_applicable:", [n["property_id"] for n in na])
